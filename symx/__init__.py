"""symx: contract verifier running the real /repo code objects on symbolic integers.

amoco has an optional z3 back end (amoco.cas.smt replaces tst.verify etc. when `import z3`
succeeds).  The repository's interpreter (/venv) has no z3, so the code the tests run -- and
the code verified here -- is the variant WITHOUT that back end: z3 is hidden from amoco while
its modules are imported, and restored for the verifier afterwards.
"""
import sys as _sys
import z3 as _z3

_sys.modules["z3"] = None
try:
    import amoco.cas.mapper  # noqa: F401  (imports amoco.cas.smt at its end)
    import amoco.cas.smt as _smt
finally:
    _sys.modules["z3"] = _z3
assert not _smt.has_solver

# amoco logs every rejected decode / ignored assignment to stderr: silence it in the verifier
try:
    from amoco.config import conf as _conf
    _conf.Log.level = "CRITICAL"
except Exception:
    pass
