"""Boolean / value connectives that work on plain Python values AND on symbolic proxies.

Contracts (pre/postconditions, spec functions) are written once with these helpers and
Python operators; the same text is evaluated symbolically (building z3 terms, no forking)
by the verifier and natively on plain ints by the replay / CPython cross-check.
"""
import z3
from .core import SInt, SBool, SymBytes, lift, cur, Ctx

_bool = bool


def _t(x):
    if isinstance(x, SBool):
        return x.t
    if isinstance(x, z3.BoolRef):
        return x
    if isinstance(x, SInt):
        return x.t != 0
    return None


def _sym(*xs):
    return any(isinstance(x, (SBool, SInt, z3.BoolRef)) for x in xs)


def Not(a):
    if _sym(a):
        return SBool(z3.Not(_t(a)))
    return not a


def And(*xs):
    if len(xs) == 1 and isinstance(xs[0], (list, tuple)):
        xs = tuple(xs[0])
    ts = []
    for x in xs:
        if _sym(x):
            ts.append(_t(x))
        elif not x:
            return False
    if not ts:
        return True
    return SBool(z3.And(*ts)) if len(ts) > 1 else SBool(ts[0])


def Or(*xs):
    if len(xs) == 1 and isinstance(xs[0], (list, tuple)):
        xs = tuple(xs[0])
    ts = []
    for x in xs:
        if _sym(x):
            ts.append(_t(x))
        elif x:
            return True
    if not ts:
        return False
    return SBool(z3.Or(*ts)) if len(ts) > 1 else SBool(ts[0])


def Implies(a, b):
    return Or(Not(a), b)


def Iff(a, b):
    return And(Implies(a, b), Implies(b, a))


def Ite(c, a, b):
    "value-level if-then-else (no forking)"
    if not _sym(c):
        return a if c else b
    ct = _t(c)
    if isinstance(a, (_bool, SBool)) and isinstance(b, (_bool, SBool)):
        ta = a.t if isinstance(a, SBool) else z3.BoolVal(a)
        tb = b.t if isinstance(b, SBool) else z3.BoolVal(b)
        return SBool(z3.If(ct, ta, tb))
    a = lift(a)
    b = lift(b)
    return SInt(z3.If(ct, a.t, b.t), min(a.lo, b.lo), max(a.hi, b.hi))


def Eq(a, b):
    "equality of ints / bools / byte strings / tuples, without forking"
    if isinstance(a, (list, tuple, SymBytes, bytes, bytearray)) or isinstance(b, (list, tuple, SymBytes, bytes, bytearray)):
        try:
            la, lb = len(a), len(b)
        except TypeError:
            return False
        if la != lb:
            return False
        return And([Eq(x, y) for x, y in zip(a, b)])
    r = (a == b)
    if r is NotImplemented:
        return False
    return r


def sgn(v, w):
    "signed reading of an unsigned w-bit value"
    h = 1 << (w - 1)
    return Ite(v >= h, v - (1 << w), v)


def umod(v, w):
    "reduce an integer modulo 2^w (two's complement wrap)"
    return v % (1 << w)


def b2i(c):
    return Ite(c, 1, 0)


def is_sym(x):
    return isinstance(x, (SInt, SBool, SymBytes))
