"""development-time tool (never run by a check): collects the failure signatures of the run-time
contracts over several seeds, to be reviewed and committed into known_findings.json
usage: ./vf py tools/collect_rt.py C17 0 1 2 3  > /var/tmp/c17_findings.json"""
import json, multiprocessing, sys
from symx import shims
shims.install()
from contracts import rt
from contracts.decoder import cpus

def work(a):
    prop, mn, seed = a
    n, fails, samples, distinct = rt._run(prop, mn, __import__("os").environ.get("COLLECT_TIER", "thorough"), seed)
    out = {}
    for inp, detail in fails:
        out.setdefault((mn, inp["sig"]), (inp, detail))
    return [(k, v) for k, v in out.items()], n

if __name__ == "__main__":
    prop = sys.argv[1]
    seeds = [int(x) for x in sys.argv[2:]] or [0]
    jobs = [(prop, mn, s) for s in seeds for mn, k, d in cpus()]
    ctx = multiprocessing.get_context("fork")
    allf = {}
    total = 0
    with ctx.Pool(16) as pool:
        for res, n in pool.imap_unordered(work, jobs):
            total += n
            for k, v in res:
                allf.setdefault(k, v)
    entries = []
    for (mn, sg), (inp, detail) in sorted(allf.items()):
        entries.append({"property": prop, "obligation": "RT/%s/%s" % (prop, ".".join(mn.split(".")[2:])),
                        "match": "v['sig'] == %r" % sg, "what": "%s: %s" % (".".join(mn.split(".")[2:]), detail[:200]),
                        "witness": {"mode": inp.get("mode"), "bytes": inp.get("bytes")}})
    json.dump(entries, sys.stdout, indent=1)
    sys.stderr.write("%d inputs, %d distinct signatures\n" % (total, len(entries)))
