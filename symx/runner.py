"""Runs the obligations of one property on 16 workers, replays refutations natively,
prints VIOLATION / KNOWN-FINDING lines and writes the evidence file."""
import fnmatch
import hashlib
import importlib
import json
import multiprocessing
import os
import re
import subprocess
import sys
import time

from . import oblig, shims
from .oblig import Obligation, verify, run_concrete, sample, rebuild

ROOT = os.path.dirname(os.path.dirname(os.path.abspath(__file__)))
REPO = os.environ.get("AMOCO_REPO", "/repo")

EXIT_OK, EXIT_VIOLATION, EXIT_UNDECIDED, EXIT_CRASH = 0, 1, 2, 3

_OBS = []


def _slug(s):
    h = hashlib.sha1(s.encode()).hexdigest()[:8]
    return re.sub(r"[^A-Za-z0-9_.=-]+", "_", s)[:80] + "-" + h


def _work(args):
    idxs, seed = args
    out = []
    for i in idxs:
        ob = _OBS[i]
        try:
            if getattr(ob, "kind", "sym") == "rt":
                r = ob.run_rt(seed)
            else:
                r = verify(ob)
                # CPython cross-check of the same contract on seeded concrete inputs
                if r["verdict"] in ("proved", "undecided") and ob.samples:
                    n = ob.samples if r["verdict"] == "proved" else max(ob.samples, 400)
                    done, fails = sample(ob, n, seed)
                    r["concrete_evals"] = done
                    r["concrete_fail"] = fails[0] if fails else None
        except BaseException as e:  # engine crash inside a worker
            import traceback
            r = {"id": ob.id, "props": ob.props, "level": ob.level, "fuc": ob.fuc,
                 "verdict": "engine-error", "reason": "%s: %s\n%s" % (type(e).__name__, e, traceback.format_exc()[-1500:]),
                 "paths": 0, "vcs": 0, "discharged": 0, "solver_s": 0, "backend": {}, "expect": ob.expect,
                 "ref": ob.ref(), "bound": ob.bound}
        r["idx"] = i
        out.append(r)
    return out


def run_pool(obs, seed, jobs=None):
    global _OBS
    _OBS = obs
    jobs = jobs or min(16, os.cpu_count() or 4)
    n = len(obs)
    if n == 0:
        return []
    # chunks: small enough to balance, each chunk in a fresh forked process
    weights = [getattr(o, "weight", 1) for o in obs]
    order = sorted(range(n), key=lambda i: -weights[i])
    # (dynamic scheduling: one obligation per task unless there are thousands of tiny ones)
    nchunks = n if n <= 1500 else min(n, max(jobs * 40, 1))
    chunks = [[] for _ in range(nchunks)]
    load = [0] * nchunks
    for i in order:
        k = load.index(min(load))
        chunks[k].append(i)
        load[k] += weights[i]
    chunks = [c for c in chunks if c]
    ctx = multiprocessing.get_context("fork")
    results = [None] * n
    if jobs == 1 or os.environ.get("VERIF_INPROC"):
        for c in chunks:
            for r in _work((c, seed)):
                results[r["idx"]] = r
        return results
    import gc
    gc.collect()
    gc.freeze()    # keep the parent's heap out of the children's collections (copy-on-write)
    with ctx.Pool(jobs, maxtasksperchild=int(os.environ.get("VERIF_TASKS_PER_CHILD", "0")) or None) as pool:
        for rs in pool.imap_unordered(_work, [(c, seed) for c in chunks]):
            for r in rs:
                results[r["idx"]] = r
    return results


# ---------------------------------------------------------------------------------------

_REPLAYS = {}
_REVERIFIED = {}
_REV = []


def _rkey(ref, inputs):
    return json.dumps({"ref": ref, "inputs": inputs}, sort_keys=True, default=str)


def _rev_work(k):
    ob, region = _REV[k]
    try:
        return k, reverify_outside(ob, region, cached=False)
    except BaseException as e:
        return k, {"verdict": "undecided", "reason": "re-verification outside the region crashed: %s" % e, "paths": 0, "vcs": 0, "discharged": 0, "id": ob.id}


def _prefetch(prop, obs, results, known, jobs):
    """the native replays (one fresh interpreter each) and the re-verifications outside a known
    finding's region that the verdict loop will ask for, computed in parallel beforehand"""
    global _REV
    from concurrent.futures import ThreadPoolExecutor
    want = []
    for ob, r in zip(obs, results):
        if r is None or getattr(ob, "kind", "sym") == "rt":
            continue
        if r.get("verdict") == "refuted" and r.get("inputs") is not None:
            want.append((r["ref"], r["inputs"]))
        elif r.get("concrete_fail"):
            want.append((r["ref"], r["concrete_fail"]["inputs"]))
    if len(want) > 1:
        with ThreadPoolExecutor(jobs or 16) as ex:
            for (ref, inp), rp in zip(want, ex.map(lambda a: native_replay(a[0], a[1], cached=False), want)):
                _REPLAYS[_rkey(ref, inp)] = rp
    rev = []
    for ob, r in zip(obs, results):
        if r is None or getattr(ob, "kind", "sym") == "rt" or ob.expect == "refuted" or r.get("verdict") != "refuted":
            continue
        kf = match_known(known, prop, r)
        if kf is not None and kf.get("region") and _region_holds(kf["region"], r["inputs"]):
            rev.append((ob, kf["region"]))
    if len(rev) > 1:
        _REV = rev
        ctx = multiprocessing.get_context("fork")
        with ctx.Pool(min(jobs or 16, len(rev))) as pool:
            for k, r2 in pool.imap_unordered(_rev_work, range(len(rev))):
                _REVERIFIED[(rev[k][0].id, rev[k][1])] = r2


def native_replay(ref, inputs, timeout=300, cached=True):
    "run the obligation body natively (fresh interpreter, no shims) on concrete inputs"
    if cached and _rkey(ref, inputs) in _REPLAYS:
        return _REPLAYS[_rkey(ref, inputs)]
    payload = json.dumps({"ref": ref, "inputs": inputs})
    env = dict(os.environ)
    env["PYTHONPATH"] = ROOT + os.pathsep + REPO + os.pathsep + env.get("PYTHONPATH", "")
    p = subprocess.run([sys.executable, "-m", "symx.replay", "--stdin"], input=payload, text=True,
                       capture_output=True, cwd=ROOT, env=env, timeout=timeout)
    try:
        last = [l for l in p.stdout.strip().split("\n") if l.startswith("{")][-1]
        return json.loads(last)
    except Exception:
        return {"status": "error", "detail": (p.stdout + p.stderr)[-2000:]}


def load_known():
    p = os.path.join(ROOT, "known_findings.json")
    if not os.path.exists(p):
        return {"findings": [], "fixed": []}
    return json.load(open(p))


def match_known(known, prop, r):
    for f in known.get("findings", []):
        if f["property"] != prop:
            continue
        if not fnmatch.fnmatchcase(r["id"], f["obligation"]):
            continue
        return f
    return None


def _region_holds(expr, inputs):
    from . import logic
    env = {"v": inputs, "And": logic.And, "Or": logic.Or, "Not": logic.Not, "Implies": logic.Implies}
    try:
        return bool(eval(expr, env))
    except Exception:
        return False


def reverify_outside(ob, region, cached=True):
    """verify ob again under the extra precondition that the inputs lie outside `region`
    (a Python expression over v['<input name>']); the assumption is made as soon as every
    input the region mentions has been declared, i.e. before the real function runs."""
    from . import logic
    if cached and (ob.id, region) in _REVERIFIED:
        return _REVERIFIED[(ob.id, region)]
    names = set(re.findall(r"v\['([^']+)'\]", region))
    inner = ob.body

    def body(V):
        seen = {}
        state = {"done": False}
        real_int = V.int

        def int_(name, lo, hi):
            x = real_int(name, lo, hi)
            seen[name] = x
            if not state["done"] and names <= set(seen):
                state["done"] = True
                env = {"v": seen, "And": logic.And, "Or": logic.Or, "Not": logic.Not, "Implies": logic.Implies}
                V.assume(logic.Not(eval(region, env)))
            return x
        V.int = int_
        return inner(V)
    ob2 = Obligation(ob.id, body, ob.props, ob.fuc, mode=ob.mode, W=ob.W, level=ob.level, logic=ob.logic,
                     maxpaths=ob.maxpaths, index_limit=ob.index_limit, hash_limit=ob.hash_limit,
                     before_path=ob.before_path, bound=ob.bound, samples=0, setup=ob.setup,
                     vc_timeout_ms=ob.vc_timeout_ms)
    ob2.factory, ob2.params = ob.factory, ob.params
    return verify(ob2)


def check_property(prop, tier, seed, modules, jobs=None, only=None, verbose=False):
    t0 = time.time()
    shims.install()
    obs = []
    for mn in modules:
        m = importlib.import_module(mn)
        obs.extend(m.obligations(prop, tier, seed))
    for o in obs:
        o.tag = prop
    if only:
        obs = [o for o in obs if fnmatch.fnmatchcase(o.id, only)]
    ids = [o.id for o in obs]
    if len(set(ids)) != len(ids):
        dup = sorted(set(i for i in ids if ids.count(i) > 1))[:5]
        print("CHECKER-ERROR duplicate obligation ids: %s" % dup)
        return EXIT_CRASH, None
    known = load_known()
    results = run_pool(obs, seed, jobs)
    _prefetch(prop, obs, results, known, jobs)
    lines = []
    violations = []
    undecided = []
    crashes = []
    known_hits = []
    not_attempted = []
    canaries = 0
    for ob, r in zip(obs, results):
        if r is None:
            crashes.append({"id": ob.id, "reason": "no result (worker died)"})
            continue
        kind = getattr(ob, "kind", "sym")
        if kind == "rt":
            for f in r.get("failures", []):
                kf = None
                for cand in known.get("findings", []):
                    if cand["property"] == prop and fnmatch.fnmatchcase(r["id"], cand["obligation"]):
                        if "match" in cand and _region_holds(cand["match"], f.get("inputs", {})):
                            kf = cand
                            break
                        if "witness" in cand and cand["witness"] == f.get("inputs"):
                            kf = cand
                            break
                if kf:
                    known_hits.append((kf, r, f))
                else:
                    violations.append((ob, r, f.get("inputs"), f.get("detail"), f.get("confirmed", True)))
            if r.get("verdict") == "engine-error":
                crashes.append(r)
            continue
        if ob.expect == "refuted":
            canaries += 1
            if r["verdict"] != "refuted":
                crashes.append({"id": ob.id, "reason": "vacuity canary not refuted (verdict %s)" % r["verdict"]})
            else:
                rp = native_replay(r["ref"], r["inputs"])
                if rp.get("status") != "fail":
                    crashes.append({"id": ob.id, "reason": "canary counterexample does not replay natively: %s" % rp})
            continue
        if r["verdict"] == "engine-error":
            if getattr(ob, "optional", False) and "outside an exploration" in str(r.get("reason")):
                # a symbolic value leaked into amoco's global state on an earlier path: the
                # exploration of this (seeded, optional) obligation is abandoned, nothing is claimed
                r["verdict"] = "undecided"
                not_attempted.append(r)
            else:
                crashes.append(r)
        elif r["verdict"] == "proved":
            if r.get("concrete_fail"):
                # symbolic verdict and CPython disagree
                rp = native_replay(r["ref"], r["concrete_fail"]["inputs"])
                if rp.get("status") == "fail":
                    crashes.append({"id": ob.id, "reason": "UNSOUND: proved symbolically but fails natively on %s (%s)" % (r["concrete_fail"]["inputs"], rp.get("detail"))})
                else:
                    crashes.append({"id": ob.id, "reason": "cross-check failed in-process only (shim artefact?) %s" % r["concrete_fail"]})
        elif r["verdict"] == "undecided":
            if r.get("concrete_fail"):
                rp = native_replay(r["ref"], r["concrete_fail"]["inputs"])
                if rp.get("status") == "fail":
                    kf = match_known(known, prop, r)
                    if kf and (kf.get("region") is None or _region_holds(kf["region"], r["concrete_fail"]["inputs"])):
                        # (a finding with a region cannot be re-verified outside it here: the solvers
                        # already gave up on this obligation; the failing sample lies inside the region)
                        known_hits.append((kf, r, None))
                    else:
                        violations.append((ob, r, r["concrete_fail"]["inputs"], rp.get("detail"), True))
                    continue
            if getattr(ob, "optional", False):
                # seeded-random obligation the solvers could not decide: reported, not counted,
                # and (after the concrete sampler found nothing) not a failure of the check
                not_attempted.append(r)
            else:
                undecided.append(r)
        elif r["verdict"] == "refuted":
            rp = native_replay(r["ref"], r["inputs"])
            r["replay"] = rp
            if rp.get("status") != "fail":
                crashes.append({"id": ob.id, "reason": "counter-model does not replay natively (%s): inputs %s clause %s" % (rp, r["inputs"], r["clause"])})
                continue
            kf = match_known(known, prop, r)
            if kf is not None:
                region = kf.get("region")
                if region is None:
                    known_hits.append((kf, r, None))
                    continue
                if _region_holds(region, r["inputs"]):
                    r2 = reverify_outside(ob, region)
                    r["outside_region"] = {"verdict": r2["verdict"], "paths": r2["paths"], "vcs": r2["vcs"], "discharged": r2["discharged"]}
                    if r2["verdict"] == "proved":
                        known_hits.append((kf, r, None))
                        r["paths"] += r2["paths"]
                        continue
                    if r2["verdict"] == "refuted":
                        rp2 = native_replay(r2["ref"], r2["inputs"])
                        if rp2.get("status") == "fail":
                            violations.append((ob, r2, r2["inputs"], rp2.get("detail"), True))
                            continue
                        crashes.append({"id": ob.id, "reason": "counter-model outside region does not replay"})
                        continue
                    known_hits.append((kf, r, None))
                    undecided.append(r2)
                    continue
            violations.append((ob, r, r["inputs"], rp.get("detail"), True))
    # ---- report
    code = EXIT_OK
    seen = set()
    for kf, r, f in known_hits:
        key = kf["what"]
        if key in seen:
            continue
        seen.add(key)
        print("KNOWN-FINDING: property=%s %s" % (prop, kf["what"]))
    rdir = os.path.join(ROOT, "replays", prop)
    nviol = 0
    for ob, r, inputs, detail, confirmed in violations:
        os.makedirs(rdir, exist_ok=True)
        path = os.path.join(rdir, _slug(r["id"]) + ".json")
        json.dump({"property": prop, "obligation": r["id"], "ref": r.get("ref"), "inputs": inputs,
                   "clause": r.get("clause"), "observed": detail, "functions_under_contract": r.get("fuc"),
                   "verifier_output": {k: r.get(k) for k in ("verdict", "paths", "vcs", "discharged", "reason", "path")},
                   "how_to_replay": "./vf replay %s" % os.path.relpath(path, ROOT)}, open(path, "w"), indent=1, default=str)
        nviol += 1
        if nviol <= int(os.environ.get("VERIF_MAXPRINT", "25")):
            if inputs is None:
                print("VIOLATION property=%s replay=%s no-failing-input-found" % (prop, path))
            else:
                print("VIOLATION property=%s replay=%s" % (prop, path))
            print("  obligation %s: %s" % (r["id"], (detail or "")[:300]))
    if nviol:
        code = EXIT_VIOLATION
    for r in undecided:
        print("UNDECIDED obligation %s: %s" % (r["id"], r.get("reason")))
    for r in crashes:
        print("CHECKER-ERROR %s: %s" % (r.get("id"), str(r.get("reason"))[:1500]))
    if not obs:
        print("CHECKER-ERROR no obligations generated")
        code = EXIT_CRASH
    if code == EXIT_OK and undecided:
        code = EXIT_UNDECIDED
    if crashes and code != EXIT_VIOLATION:
        code = EXIT_CRASH
    summary = {"obs": obs, "results": results, "violations": violations, "undecided": undecided,
               "crashes": crashes, "known_hits": known_hits, "canaries": canaries, "not_attempted": not_attempted,
               "wall_s": time.time() - t0}
    return code, summary
