"""Contracts on amoco.system.memory (C08): a MemoryZone / MemoryMap is a last-write-wins byte
store.

Ghost view of a zone:  V : offset -> undefined | byte value (a function of the payloads and of
the register valuation).  Contracts, discharged for ALL write addresses, read addresses, payload
bytes and register values (symbolic; z3 Int / QF_LIA-style path conditions), histories
enumerated up to a bound:

  write/addtomap(o) : wf(zone') and V' = V[o.vaddr+i -> byte i of o]   (whole view: a read of
                      ANY range afterwards sees exactly the last covering write)
  read(a, l)        : the parts returned, flattened byte by byte, equal V[a .. a+l); the
                      lengths of the parts add up to l; never-written bytes are 'undefined'
  copy / restruct   : V unchanged ; shift(k): V shifted by k
  wf(zone)          : _map sorted by vaddr, pairwise disjoint, every object non-empty,
                      cache == [o.vaddr]

The oracle is a nested if-then-else over the HISTORY (last covering write), built from the
history, never from the zone.  An expression payload (register, composition...) written with
endianness e occupies memory byte j with bits [8j,8j+8) (e=1) or [8(n-1-j), ...) (e=-1) of its
value; parts read back are interpreted by the independent walker den().
"""
import itertools
import random

import amoco.cas.expressions as E
import amoco.system.memory as M

from symx.oblig import Obligation, factory
from symx.logic import And, Or, Not, Ite, Eq, Implies
from symx.core import SInt, SymBytes
from specs.den import den, NoClaim

UNDEF = 256
AMAX = 1 << 20


RID = {}


def rid(name):
    if name not in RID:
        RID[name] = len(RID) + 1
    return RID[name]


def rcode(name, bytepos):
    "code of byte `bytepos` (bits [8*bytepos, +8)) of register `name`: a symbolic-free identity"
    return 1000 + rid(name) * 100 + bytepos


def const_bytes(v, n):
    "byte j of an n-byte constant: (v >> 8j) & 0xff, computed by successive shifts"
    out = []
    for _ in range(n):
        out.append(v & 0xFF)
        v = v >> 8
    return out


class Write(object):
    """one write of the history; .codes[j] is the content code of memory byte j of the
    payload: a byte value 0..255 for raw bytes and constants, a register-byte identity for
    expression payloads (memory byte j holds expression byte j for little endian, n-1-j for big)"""

    def __init__(self, k, kind, n, endian, V):
        self.k, self.kind, self.n, self.endian = k, kind, n, endian
        self.addr = V.int("a%d" % k, 0, AMAX)
        if kind == "bytes":
            self.payload = V.bytes("d%d" % k, n)
            self.codes = list(self.payload)
            return
        if kind == "cst":
            v = V.int("c%d" % k, 0, (1 << (8 * n)) - 1)
            e = E.cst(0, 8 * n)
            e.v = v
            ebytes = const_bytes(v, n)
        elif kind == "reg":
            e = E.reg("r%d" % k, 8 * n)
            ebytes = [rcode("r%d" % k, j) for j in range(n)]
        elif kind == "comp":
            # low half: a register, high half: a slice of a wider register
            h = n // 2
            lo = E.reg("r%dl" % k, 8 * h)
            hi_r = E.reg("r%dh" % k, 8 * (n - h) + 8)
            e = E.composer([lo, hi_r[8:8 * (n - h) + 8]])
            ebytes = [rcode("r%dl" % k, j) for j in range(h)] + [rcode("r%dh" % k, 1 + j) for j in range(n - h)]
        else:
            raise ValueError(kind)
        self.payload = e
        if endian == -1:
            ebytes = list(reversed(ebytes))
        self.codes = ebytes


def oracle(history, x):
    "(content code | UNDEF, endianness of the covering write) at offset x: last covering write wins"
    v = UNDEF
    e = 1
    for w in history:
        for j in range(w.n):
            c = (x == w.addr + j)
            v = Ite(c, w.codes[j], v)
            e = Ite(c, w.endian, e)
    return v, e


class Mixed(Exception):
    pass


def ebyte(p, o):
    "content code of bits [o, o+8) of expression p (reads fields only)"
    if p._is_cst:
        return (p.v >> o) & 0xFF
    if p._is_slc:
        return ebyte(p.x, p.pos + o)
    if p._is_reg:
        if o % 8:
            raise Mixed("unaligned register byte")
        return rcode(p.ref, o // 8)
    if p._is_cmp:
        keys = sorted(p.parts)
        pos = 0
        for (a, b) in keys:
            if a != pos:
                raise Mixed("comp does not tile")
            pos = b
            if a <= o and o + 8 <= b:
                return ebyte(p.parts[(a, b)], o - a)
        raise Mixed("byte straddles parts")
    raise Mixed("node kind %x" % p.etype)


def flatten(parts, rho, endian_at):
    """content codes, byte by byte, of what zone.read returned; endian_at(t) gives the
    endianness under which byte t was written (from the oracle)"""
    out = []
    pos = 0
    for p in parts:
        if isinstance(p, (bytes, SymBytes)):
            for b in p:
                out.append(b)
                pos += 1
            continue
        if not isinstance(p, E.exp):
            raise TypeError("zone.read returned %r" % (p,))
        if p.size % 8:
            raise ValueError("part of %d bits" % p.size)
        m = p.size // 8
        if not p._is_def and not p._is_top:
            out.extend([UNDEF] * m)
            pos += m
            continue
        for t in range(m):
            little = ebyte(p, 8 * t)
            big = ebyte(p, 8 * (m - 1 - t))
            out.append(Ite(endian_at(pos) == 1, little, big))
            pos += 1
    return out


def wf(zone):
    "representation invariant of a MemoryZone"
    cs = []
    mp = zone._map
    cache = getattr(zone, "_MemoryZone__cache")
    cs.append(len(cache) == len(mp))
    for k, o in enumerate(mp):
        cs.append(len(o.data) > 0)
        if k < len(cache):
            cs.append(Eq(cache[k], o.vaddr))
        if k + 1 < len(mp):
            cs.append(o.vaddr + len(o.data) <= mp[k + 1].vaddr)
    return And(cs)


def check_read(zone, history, ra, L, rho, post, tag):
    parts = zone.read(ra, L)
    exp = [oracle(history, ra + j) for j in range(L)]
    got = flatten(parts, rho, lambda t: exp[t][1] if t < L else 1)
    post["C08 %s: lengths add up to %d" % (tag, L)] = (len(got) == L)
    if len(got) == L:
        post["C08 %s: byte for byte the last covering write" % tag] = And([Eq(got[j], exp[j][0]) for j in range(L)])


@factory
def zone_history(shape, ops, L):
    """shape: list of (kind, nbytes, endian) writes; ops: operations interleaved after the
    writes ('copy', 'restruct', 'shift', 'reread'); L: read length"""
    shape = [tuple(x) for x in shape]

    def body(V):
        z = M.MemoryZone()
        history = []
        rho = {}
        post = {}
        for k, (kind, n, e) in enumerate(shape):
            w = Write(k, kind, n, e, V)
            z.write(w.addr, w.payload, e)
            history.append(w)
            post["C08 wf after write %d" % k] = wf(z)
        ra = V.int("ra", 0, AMAX)
        shift = 0
        for op in ops:
            if op == "copy":
                z = z.copy()
                post["C08 wf after copy"] = wf(z)
            elif op == "restruct":
                z.restruct()
                post["C08 wf after restruct"] = wf(z)
            elif op == "shift":
                z.shift(7)
                shift += 7
                post["C08 wf after shift"] = wf(z)
            elif op == "reread":
                z.read(ra + shift, L)
            elif op == "fork":
                # a copy is written to: the original keeps the history it had (the copy owns its objects)
                orig = z
                z = z.copy()
                w = Write(len(history), "bytes", 2, 1, V)
                z.write(w.addr, w.payload, 1)
                post["C08 wf of the written copy"] = wf(z)
                post["C08 wf of the original after its copy was written"] = wf(orig)
                check_read(orig, list(history), ra, L, rho, post, "original after its copy was written")
                history.append(w)
        check_read(z, history, ra, L, rho, post, "read") if shift == 0 else _shifted(z, history, ra, L, rho, post, shift)
        return post
    name = "+".join("%s%d%s" % (k, n, "le" if e == 1 else "be") for (k, n, e) in shape)
    return Obligation("M/zone/%s/%s/L=%d" % (name, "-".join(ops) or "read", L), body, ["C08"],
                      ["amoco.system.memory:MemoryZone.write", "amoco.system.memory:MemoryZone.addtomap", "amoco.system.memory:MemoryZone.locate",
                       "amoco.system.memory:MemoryZone.read", "amoco.system.memory:MemoryZone.copy", "amoco.system.memory:MemoryZone.restruct",
                       "amoco.system.memory:MemoryZone.shift", "amoco.system.memory:mo.write", "amoco.system.memory:mo.trim", "amoco.system.memory:mo.read",
                       "amoco.system.memory:datadiv.getpart", "amoco.system.memory:datadiv.setpart", "amoco.system.memory:datadiv.cut",
                       "amoco.system.memory:datadiv.setlen", "amoco.system.memory:mergeparts", "amoco.cas.expressions:exp.bytes", "amoco.cas.expressions:cst.to_bytes"],
                      mode="int", level="Bsym", bound="histories of <= 3 writes (thorough: some of 4) (payload kinds bytes/cst/reg/comp, sizes 1..8, both endiannesses), read lengths <= 9; all addresses and payloads symbolic",
                      samples=20, maxpaths=60000, index_limit=64, vc_timeout_ms=30000, budget_s=900)


def _shifted(z, history, ra, L, rho, post, shift):
    parts = z.read(ra + shift, L)
    exp = [oracle(history, ra + j) for j in range(L)]
    got = flatten(parts, rho, lambda t: exp[t][1] if t < L else 1)
    post["C08 shift: lengths add up"] = (len(got) == L)
    if len(got) == L:
        post["C08 shift: view shifted, content unchanged"] = And([Eq(got[j], exp[j][0]) for j in range(L)])


@factory
def map_history(shape, zones, L, merge=False):
    """MemoryMap level: writes through addresses in several zones (None: concrete zone; a
    register: symbolic zone base+disp), read back through the map; optionally via merge()"""
    shape = [tuple(x) for x in shape]

    def body(V):
        mm = M.MemoryMap()
        other = M.MemoryMap() if merge else None
        hist = {}
        rho = {}
        post = {}
        bases = {}
        for k, (kind, n, e) in enumerate(shape):
            w = Write(k, kind, n, e, V)
            zn = zones[k]
            if zn is None:
                addr = E.cst(0, 32)
                addr.v = w.addr
            else:
                if zn not in bases:
                    bases[zn] = E.reg(zn, 32)
                addr = E.ptr(bases[zn], disp=w.addr)
            target = other if (merge and k == len(shape) - 1) else mm
            target.write(addr, w.payload, e)
            hist.setdefault(zn, []).append(w)
        if merge:
            mm.merge(other)
        ra = V.int("ra", 0, AMAX)
        for zn in sorted(hist, key=lambda x: str(x)):
            if zn is None:
                addr = E.cst(0, 32)
                addr.v = ra
            else:
                addr = E.ptr(bases[zn], disp=ra)
            parts = mm.read(addr, L)
            exp = [oracle(hist[zn], ra + j) for j in range(L)]
            got = flatten(parts, rho, lambda t: exp[t][1] if t < L else 1)
            post["C08 map zone %s: lengths" % zn] = (len(got) == L)
            if len(got) == L:
                post["C08 map zone %s: byte for byte the last covering write of that zone" % zn] = And([Eq(got[j], exp[j][0]) for j in range(L)])
        cp = mm.copy()
        for zn in sorted(hist, key=lambda x: str(x)):
            addr = E.cst(0, 32) if zn is None else E.ptr(bases[zn], disp=ra)
            if zn is None:
                addr.v = ra
            parts = cp.read(addr, L)
            exp = [oracle(hist[zn], ra + j) for j in range(L)]
            got = flatten(parts, rho, lambda t: exp[t][1] if t < L else 1)
            if len(got) == L:
                post["C08 map copy zone %s: same content" % zn] = And([Eq(got[j], exp[j][0]) for j in range(L)])
            else:
                post["C08 map copy zone %s: lengths" % zn] = False
        return post
    name = "+".join("%s%d%s@%s" % (k, n, "le" if e == 1 else "be", z) for (k, n, e), z in zip(shape, zones))
    return Obligation("M/map/%s/%sL=%d" % (name, "merge/" if merge else "", L), body, ["C08"],
                      ["amoco.system.memory:MemoryMap.reference", "amoco.system.memory:MemoryMap.read", "amoco.system.memory:MemoryMap.write",
                       "amoco.system.memory:MemoryMap.copy", "amoco.system.memory:MemoryMap.merge", "amoco.system.memory:MemoryZone.addtomap"],
                      mode="int", level="Bsym", bound="map histories of <= 3 writes over <= 2 zones",
                      samples=20, maxpaths=60000, index_limit=64, vc_timeout_ms=30000, budget_s=900)


@factory
def canary(name):
    "deliberately false: a read sees the FIRST covering write"
    def body(V):
        z = M.MemoryZone()
        hist = []
        for k in range(2):
            w = Write(k, "bytes", 2, 1, V)
            z.write(w.addr, w.payload, 1)
            hist.append(w)
        ra = V.int("ra", 0, AMAX)
        parts = z.read(ra, 1)
        exp = oracle(list(reversed(hist)), ra)[0]
        got = flatten(parts, {}, lambda t: 1)
        return {"canary": Eq(got[0], exp)}
    return Obligation("M/canary/%s" % name, body, ["C08"], [], mode="int", level="Bsym", expect="refuted")


KINDS = ("bytes", "cst", "reg", "comp")


def obligations(prop, tier, seed):
    rng = random.Random("memory/%s" % seed)
    obs = []
    payloads = []
    for kind in KINDS:
        for n in (1, 2, 3, 4, 8):
            if kind == "comp" and n < 2:
                continue
            for e in ((1,) if kind == "bytes" else (1, -1)):
                payloads.append((kind, n, e))
    # one write, every payload, several read lengths
    for p in payloads:
        for L in (1, 2, 9):
            obs.append(zone_history(shape=[p], ops=[], L=L))
    # two writes: all pairs over a reduced payload set, plus seeded pairs of the full set
    small = [("bytes", 1, 1), ("bytes", 4, 1), ("cst", 2, 1), ("cst", 4, -1), ("reg", 4, 1), ("reg", 2, -1), ("comp", 4, 1), ("comp", 3, -1)]
    pairs = list(itertools.product(small, small))
    if tier == "quick":
        pairs = rng.sample(pairs, 48)
    for (p, q) in pairs:
        o = zone_history(shape=[p, q], ops=[], L=rng.choice((1, 3, 5)))
        o.weight = 8
        obs.append(o)
    extra = [(rng.choice(payloads), rng.choice(payloads)) for _ in range(40 if tier == "quick" else 300)]
    for (p, q) in extra:
        o = zone_history(shape=[p, q], ops=[], L=rng.choice((1, 2, 4, 9)))
        o.weight = 8
        obs.append(o)
    # interleaved copy / restruct / shift
    for ops in (["copy"], ["restruct"], ["shift"], ["reread", "copy", "restruct"], ["fork"]):
        for (p, q) in rng.sample(pairs, 4 if tier == "quick" else 16):
            o = zone_history(shape=[p, q], ops=ops, L=3)
            o.weight = 8
            obs.append(o)
    # three writes
    n3 = 30 if tier == "quick" else 400
    tiny = [("bytes", 2, 1), ("bytes", 1, 1), ("cst", 2, 1), ("reg", 2, 1), ("reg", 4, -1), ("comp", 2, 1)]
    for _ in range(n3):
        sh = [rng.choice(tiny) for _ in range(3)]
        o = zone_history(shape=sh, ops=[], L=rng.choice((1, 3)))
        o.weight = 60
        obs.append(o)
    # four writes (thorough only)
    if tier == "thorough":
        for _ in range(12):
            sh = [rng.choice(tiny[:4]) for _ in range(4)]
            o = zone_history(shape=sh, ops=[], L=1)
            o.weight = 400
            obs.append(o)
    # memory map: zone selection
    for zs in ([None, None], [None, "p"], ["p", "p"], ["p", "q"]):
        for (p, q) in rng.sample(pairs, 3 if tier == "quick" else 10):
            obs.append(map_history(shape=[p, q], zones=zs, L=3))
            obs.append(map_history(shape=[p, q], zones=zs, L=2, merge=True))
    obs.append(canary(name="first-write-wins"))
    seen = set()
    out = []
    for o in obs:
        if o.id in seen:
            continue
        seen.add(o.id)
        out.append(o)
    return [o for o in out if prop in o.props]
