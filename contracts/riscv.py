"""Contracts on the RISC-V semantics (C06, RISC-V half): for every base-ISA opcode, register
indices enumerated, ALL immediates (the free bits of the instruction word), ALL register values,
pc and the touched memory bytes symbolic:

   decode the word with the real disassembler (real setup function), bind every register and pc
   to a constant in a map, apply the real i_XXX semantics; afterwards every register, pc and the
   stored bytes equal the reference interpreter written from the ISA manual (specs/rv_ref.py).
"""
import importlib

import amoco.cas.expressions as E
from amoco.cas.mapper import mapper

from symx.oblig import Obligation, factory
from symx.logic import And, Or, Not, Ite, Eq, Implies
from symx.core import SInt
from specs import rv_ref
from specs.fmtsem import fmtsem
from contracts.disasm import wrap_tree
from contracts.decoder import flat

ISAS = {"rv32i": ("amoco.arch.riscv.cpu_rv32i", 32), "rv64i": ("amoco.arch.riscv.cpu_rv64i", 64)}

BASE = {
    32: ["ADD", "SUB", "AND", "OR", "XOR", "SLT", "SLTU", "SLL", "SRL", "SRA",
         "ADDI", "ANDI", "ORI", "XORI", "SLTI", "SLTIU", "SLLI", "SRLI", "SRAI", "LUI", "AUIPC",
         "JAL", "JALR", "BEQ", "BNE", "BLT", "BGE", "BLTU", "BGEU",
         "LB", "LH", "LW", "LBU", "LHU", "SB", "SH", "SW", "FENCE", "ECALL"],
}
WFORMS = ["ADDW", "SUBW", "SLLW", "SRLW", "SRAW", "ADDIW", "SLLIW", "SRLIW", "SRAIW"]
BASE[64] = BASE[32] + ["LWU", "LD", "SD"] + WFORMS

USES = {  # which register fields the format has
    "R": ("rd", "rs1", "rs2"), "I": ("rd", "rs1"), "S": ("rs1", "rs2"), "B": ("rs1", "rs2"), "U": ("rd",), "J": ("rd",), "N": (),
}
FORMAT = {}
for _m in ("ADD", "SUB", "AND", "OR", "XOR", "SLT", "SLTU", "SLL", "SRL", "SRA", "ADDW", "SUBW", "SLLW", "SRLW", "SRAW"):
    FORMAT[_m] = "R"
for _m in ("ADDI", "ANDI", "ORI", "XORI", "SLTI", "SLTIU", "SLLI", "SRLI", "SRAI", "ADDIW", "SLLIW", "SRLIW", "SRAIW", "JALR", "LB", "LH", "LW", "LBU", "LHU", "LWU", "LD"):
    FORMAT[_m] = "I"
for _m in ("SB", "SH", "SW", "SD"):
    FORMAT[_m] = "S"
for _m in ("BEQ", "BNE", "BLT", "BGE", "BLTU", "BGEU"):
    FORMAT[_m] = "B"
for _m in ("LUI", "AUIPC"):
    FORMAT[_m] = "U"
FORMAT["JAL"] = "J"
for _m in ("FENCE", "FENCE_I", "ECALL", "EBREAK"):
    FORMAT[_m] = "N"


def cpu_of(isa):
    return importlib.import_module(ISAS[isa][0])


def spec_of(isa, mnemonic):
    cpu = cpu_of(isa)
    d = cpu.disassemble
    name = mnemonic
    opimm32 = False
    if mnemonic in ("SLLIW", "SRLIW", "SRAIW"):
        # amoco registers the OP-IMM-32 encodings under the names SLLI/SRLI/SRAI
        name = mnemonic[:-1]
        opimm32 = True
    found = [s for s in flat(d.specs[0]) if s.iattr.get("mnemonic") == name]
    found = [s for s in found if (fmtsem(s.format).fix & 0x7F == 0b0011011) == opimm32] or found
    if not found:
        raise KeyError(mnemonic)
    return found[0]


class _Patch(object):
    def __init__(self, cpu):
        self.cpu = cpu
        self.active = False

    def enter(self):
        if self.active:
            return
        d = self.cpu.disassemble
        self.saved = d.specs[0]
        d.specs[0] = wrap_tree(self.saved)
        self.active = True

    def exit(self):
        if self.active:
            self.cpu.disassemble.specs[0] = self.saved
            self.active = False


def _restore_flags(cpu):
    def f():
        for r in list(cpu.x) + [cpu.pc]:
            if r._is_reg:
                r.sf = False
    return f


@factory
def semantics(isa, mnemonic, rd, rs1, rs2, pin_imm=None):
    modname, X = ISAS[isa]
    cpu = cpu_of(isa)
    s = spec_of(isa, mnemonic)
    f = fmtsem(s.format)
    fm = FORMAT[mnemonic]
    mask, fix = f.mask, f.fix
    fields = {"rd": (7, rd), "rs1": (15, rs1), "rs2": (20, rs2)}
    for name in USES[fm]:
        sh, v = fields[name]
        mask |= 0x1F << sh
        fix |= v << sh
    P = _Patch(cpu)

    def body(V):
        bs = V.bytes("w", 4)
        word = bs[0] + (bs[1] << 8) + (bs[2] << 16) + (bs[3] << 24)
        V.assume(Eq(word & mask, fix))
        if pin_imm is not None:
            V.assume(Eq(word & (0xFFFFFFFF ^ mask), pin_imm & (0xFFFFFFFF ^ mask)))
        if (mnemonic in ("SLLI", "SRLI", "SRAI") and X == 32) or mnemonic in ("SLLIW", "SRLIW", "SRAIW"):
            V.assume(Eq((word >> 25) % 2, 0))
        P.enter()
        i = cpu.disassemble(bs)
        post = {}
        post["C06 decodes as %s" % mnemonic] = (i is not None and i.mnemonic == mnemonic)
        if i is None:
            return post
        regs = [0] + [V.int("x%d" % k, 0, (1 << X) - 1) for k in range(1, 32)]
        pcv = V.int("pc", 0, (1 << X) - 8)
        membytes = V.bytes("m", 8)
        memaddr = [None]

        def load(addr, n):
            memaddr[0] = addr
            v = 0
            for k in range(n):
                v = v + (membytes[k] << (8 * k))
            return v
        uses = USES[fm]
        erd, eval_, enpc, estore = rv_ref.step(X, mnemonic, rd if "rd" in uses else None, rs1 if "rs1" in uses else None,
                                               rs2 if "rs2" in uses else None, word, regs, pcv, load)
        fmap = mapper()
        for k in range(1, 32):
            c = E.cst(0, X)
            c.v = regs[k]
            fmap[cpu.x[k]] = c
        c = E.cst(0, X)
        c.v = pcv
        fmap[cpu.pc] = c
        if memaddr[0] is not None:
            V.assume(memaddr[0] <= (1 << X) - 16)
            a = E.cst(0, X)
            a.v = memaddr[0]
            mv = E.cst(0, 64)
            mv.v = load(0, 8)
            fmap[E.mem(a, 64)] = mv
        if estore is not None:
            V.assume(estore[0] <= (1 << X) - 16)
        i(fmap)
        for k in range(1, 32):
            r = fmap(cpu.x[k])
            exp = eval_ if (erd is not None and k == erd) else regs[k]
            ok = isinstance(r, E.exp) and r._is_cst and r.size == X
            post["C06 x%d is a %d-bit constant" % (k, X)] = bool(ok)
            if ok:
                post["C06 x%d" % k] = Eq(r.v, exp)
        r = fmap(cpu.pc)
        ok = isinstance(r, E.exp) and r._is_cst and r.size == X
        post["C06 pc is a constant"] = bool(ok)
        if ok:
            post["C06 next pc"] = Eq(r.v, enpc)
        if estore is not None:
            addr, n, val = estore
            a = E.cst(0, X)
            a.v = addr
            r = fmap(E.mem(a, 8 * n))
            ok = isinstance(r, E.exp) and r._is_cst and r.size == 8 * n
            post["C06 stored bytes readable as a constant"] = bool(ok)
            if ok:
                post["C06 stored value"] = Eq(r.v, val)
        return post
    W = 2 * X + 24
    ob = Obligation("R/%s/%s/rd=%d,rs1=%d,rs2=%d%s" % (isa, mnemonic, rd, rs1, rs2, "" if pin_imm is None else "/imm=%08x" % pin_imm), body, ["C06"],
                    ["%s:i_%s" % (modname.replace("cpu_", "") + ".asm", mnemonic), "amoco.arch.riscv.%s.spec_%s:setup functions" % (isa, isa),
                     "amoco.arch.core:icore.__call__", "amoco.cas.mapper:mapper.__setitem__", "amoco.cas.mapper:mapper.__call__"],
                    mode="bv", W=W, level="P", samples=10, maxpaths=4000, index_limit=300, vc_timeout_ms=30000, budget_s=300,
                    before_path=_restore_flags(cpu))
    ob.teardown = P.exit
    return ob


PATTERNS = [(1, 1, 1), (5, 5, 10), (5, 10, 5), (10, 5, 5), (1, 2, 5), (31, 30, 2), (0, 1, 2), (1, 0, 2), (1, 2, 0),
            (0, 0, 0), (30, 31, 31), (2, 1, 1), (0, 5, 5), (10, 0, 0)]


def index_triples(tier, rng):
    "every coincidence pattern of (rd, rs1, rs2), with and without x0; thorough: over all 32 indices"
    out = list(PATTERNS)
    if tier == "quick":
        for _ in range(4):
            out.append((rng.randrange(32), rng.randrange(32), rng.randrange(32)))
        return out
    for a in range(32):
        out.append((a, a, a))
        for b in range(32):
            out += [(a, b, a), (a, a, b), (a, b, b)]
    for _ in range(1500):
        out.append((rng.randrange(32), rng.randrange(32), rng.randrange(32)))
    return out


PIN_MEM = (0x00000000, 0xFFFFFFFF, 0x7FF00F80, 0x80000000 | (1 << 20), 0x00400200)


def obligations(prop, tier, seed):
    import random
    rng = random.Random("riscv/%s" % seed)
    obs = []
    for isa, (modname, X) in ISAS.items():
        triples = index_triples(tier, rng)
        for m in BASE[X]:
            fm = FORMAT[m]
            uses = USES[fm]
            seen = set()
            ts = triples if tier == "thorough" else (triples if fm in ("R",) else triples)
            for (rd, rs1, rs2) in ts:
                key = (rd if "rd" in uses else 0, rs1 if "rs1" in uses else 0, rs2 if "rs2" in uses else 0)
                if key in seen:
                    continue
                seen.add(key)
                if tier == "quick" and len(seen) > (18 if fm == "R" else 12):
                    break
                if tier == "thorough" and len(seen) > (1200 if fm == "R" else 300):
                    break
                if fm in ("S",) or m in ("LB", "LH", "LW", "LBU", "LHU", "LWU", "LD"):
                    # the address text of a memory operand needs a concrete displacement:
                    # immediates from a boundary set, everything else symbolic
                    for pin in (PIN_MEM if tier == "thorough" else PIN_MEM[:3]):
                        if key[1] == 0 and pin & 0x80000000:
                            continue    # x0 + negative displacement: wraps around the address space
                        obs.append(semantics(isa=isa, mnemonic=m, rd=key[0], rs1=key[1], rs2=key[2], pin_imm=pin))
                else:
                    obs.append(semantics(isa=isa, mnemonic=m, rd=key[0], rs1=key[1], rs2=key[2]))
    return [o for o in obs if prop in o.props]
