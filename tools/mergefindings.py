"""development-time tool (never run by a check): merges reviewed, collected finding entries into
known_findings.json.   usage: python3 tools/mergefindings.py <collected.json>"""
import json, sys
d = json.load(open("/verif/known_findings.json"))
new = json.load(open(sys.argv[1]))
have = set((f.get("property"), f.get("obligation"), f.get("match")) for f in d["findings"])
added = 0
for e in new:
    k = (e.get("property"), e.get("obligation"), e.get("match"))
    if k not in have:
        have.add(k)
        d["findings"].append(e)
        added += 1
        print("+", e["obligation"], str(e.get("match", e.get("region", "")))[:150])
json.dump(d, open("/verif/known_findings.json", "w"), indent=1)
print("added", added, "total", len(d["findings"]))
