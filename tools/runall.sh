#!/bin/sh
# runs every registered check (quick tier) and prints one line per check
cd /verif
for p in $(./vf list | cut -d' ' -f1); do
  s=$(date +%s)
  ./vf check $p --tier ${1:-quick} > /var/tmp/runall_$p.log 2>&1; rc=$?
  e=$(date +%s)
  echo "$p exit=$rc $((e-s))s $(grep -c '^KNOWN-FINDING' /var/tmp/runall_$p.log) known; $(tail -1 /var/tmp/runall_$p.log | cut -c1-150)"
done
