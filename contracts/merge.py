"""Contract on amoco.cas.mapper.merge (C19): the merge of two maps covers both.

For enumerated pairs of maps (registers assigned expressions built with the operator API, with
and without path conditions, with a location written by one map only), widening on/off and a
complexity threshold, and ALL register valuations:

   for every location written by either map, merge(m1,m2)[loc] is 'unknown' (top, or a widened
   vector) or an expression / vector of alternatives such that
        den(m1'[loc]) is the denotation of one of the alternatives, and so is den(m2'[loc])
   where m_i' = m_i.assume(m_i.conds) restricted to valuations satisfying m_i's conditions;
   flag registers may be unknown; locations written by neither map are left untouched.

REF/den: the independent walker of specs/den.py on both sides; the recipes are those of the
expression-tree contracts (contracts/cas_trees.py).
"""
import random

import amoco.cas.expressions as E
from amoco.cas.mapper import mapper, merge
from amoco.config import conf

from symx.oblig import Obligation, factory
from symx.logic import And, Or, Not, Ite, Eq, Implies
from specs.den import den, NoClaim, Malformed
from contracts import cas_trees as T


def _setconf(thr):
    def f():
        conf.Cas.complexity = thr
        conf.Cas.noaliasing = True
        conf.Cas.memtrace = True
    return f


@factory
def covers(w, r1, r2, r3, cond, widening, threshold, identity=False):
    """m1: a <- r1 ; c <- r3      m2: a <- r2        (c written by m1 only, d by neither)
    cond: None | 'eq0' : m1 holds under (b == 0), m2 under (b != 0)"""
    r1, r2, r3 = T._tup(r1), T._tup(r2), T._tup(r3)

    def body(V):
        env = T.Env(w, "U", V)
        nodes = []
        pre = []
        v1, v2, v3 = T.ref(r1, env, pre), T.ref(r2, env, pre), T.ref(r3, env, pre)
        V.assume(And(pre))
        e1, e2, e3 = T.build(r1, env, nodes), T.build(r2, env, nodes), T.build(r3, env, nodes)
        a = E.reg("ra", T.rwidth(r1, w))
        c = E.reg("rc", T.rwidth(r3, w))
        d = E.reg("rd", 8)
        b = env.regs["b"]
        env.val("b")
        m1, m2 = mapper(), mapper()
        g = E.reg("rg", T.rwidth(r1, w))
        if identity:
            # the first map writes the register back to its initial value
            m1[a] = a
            v1 = None
        else:
            m1[a] = e1
        m1[c] = e3
        m2[a] = e2
        m2[g] = e1          # written by the second map only
        if cond == "eq0":
            m1.conds.append(b == 0)
            m2.conds.append(b != 0)
        opts = {"widening": True} if widening else {}
        mm = merge(m1, m2, **opts)
        rho = dict(env.vals)
        rho["ra"] = V.int("ra", 0, (1 << a.size) - 1)
        rho["rc"] = V.int("rc", 0, (1 << c.size) - 1)
        rho["rd"] = V.int("rd", 0, 255)
        rho["rg"] = V.int("rg", 0, (1 << g.size) - 1)
        post = {}

        def member(tag, got, want, assumption):
            if got._is_top or not got._is_def:
                post["C19 %s: unknown is allowed" % tag] = True
                return
            alts = list(got.l) if got._is_vec else [got]
            terms = []
            for x in alts:
                if x._is_top or not x._is_def:
                    post["C19 %s: an alternative is unknown" % tag] = True
                    return
                side = []
                try:
                    dv = den(x, rho, None, side)
                except NoClaim:
                    post["C19 %s: alternative without a single meaning: no claim" % tag] = True
                    return
                except Malformed as ex:
                    post["C19 %s: malformed alternative (%s)" % (tag, ex)] = False
                    return
                terms.append(And(And(side), Eq(dv, want)))
            post["C19 %s is among the alternatives" % tag] = Implies(assumption, Or(terms)) if terms else False
        c1 = (rho["b"] == 0) if cond == "eq0" else True
        c2 = (rho["b"] != 0) if cond == "eq0" else True
        ga = mm[a]
        post["C19 width of merged value"] = (ga.size == a.size)
        member("value of a in the first map", ga, v1 if v1 is not None else rho["ra"], c1)
        member("value of a in the second map", ga, v2, c2)
        gc = mm[c]
        member("value of c in the first map", gc, v3, c1)
        member("value of c (untouched) in the second map", gc, rho["rc"], c2)
        gg = mm[g]
        member("value of g (untouched) in the first map", gg, rho["rg"], c1)
        member("value of g in the second map", gg, T.ref(r1, env, []), c2)
        gd = mm[d]
        post["C19 a location written by neither map is left untouched"] = bool(gd._is_reg and gd.ref == "rd")
        return post
    wmax = max(T.rmaxwidth(r, w) for r in (r1, r2, r3))
    oid = "G/%s|%s|%s/w=%d/%s%s%s" % (T.show(r1), T.show(r2), T.show(r3), w, cond or "nocond", "/widening" if widening else "", "/thr=%d" % threshold if threshold else "") + ("/identity" if identity else "")
    mode = "bv"
    for r in (r1, r2, r3):
        if T.choose_mode(r, w) != "bv":
            mode = None
    ob = Obligation(oid, body, ["C19"],
                    ["amoco.cas.mapper:merge", "amoco.cas.mapper:mapper.assume", "amoco.cas.mapper:mapper.eval", "amoco.cas.expressions:vec.simplify", "amoco.cas.expressions:vec.__init__"],
                    mode="bv", W=2 * wmax + 10, level="Bsym", bound="map pairs over three registers with expressions of depth <= 2; all valuations",
                    before_path=_setconf(threshold), samples=6, maxpaths=2000, vc_timeout_ms=10000, budget_s=40)
    ob.skip = (mode is None)
    ob.optional = True
    return ob


def obligations(prop, tier, seed):
    rng = random.Random("merge/%s" % seed)
    obs = []
    widths = (8, 32) if tier == "quick" else (1, 8, 13, 32, 64)
    for w in widths:
        pool = [r for r in T.depth1(w, "U") + T.depth2(w, "U") if T.rwidth(r, w) == w and not T.has_muldiv(r)]
        leafs = [("r", "a"), ("r", "b"), ("k", 5 % (1 << w), w), ("k", 0, w)]
        n = 150 if tier == "quick" else 3000
        for _ in range(n):
            r1 = rng.choice(pool + leafs)
            r2 = rng.choice(pool + leafs + [r1])
            r3 = rng.choice(pool + leafs)
            cond = rng.choice((None, None, "eq0"))
            widening = rng.random() < 0.2
            thr = rng.choice((0, 0, 0, 4, 16))
            o = covers(w=w, r1=r1, r2=r2, r3=r3, cond=cond, widening=widening, threshold=thr, identity=(rng.random() < 0.15))
            if not o.skip:
                obs.append(o)
    seen = set()
    out = []
    for o in obs:
        if o.id not in seen:
            seen.add(o.id)
            out.append(o)
    return out
