#!/bin/sh
# usage: seedcheck.sh <seed dir> <check ids...>  -- applies the seeded change to /repo, runs the checks, undoes it
SD=$1; shift
cd /repo && git diff --quiet || { echo "repo dirty"; exit 2; }
git -C /repo apply $SD/patch.diff || { echo "APPLY-FAILED $SD"; exit 1; }
for c in "$@"; do
  cd /verif && timeout 1500 ./vf check $c > /var/tmp/seedrun.log 2>&1; rc=$?
  v=$(grep -c "^VIOLATION" /var/tmp/seedrun.log)
  first=$(grep -A1 "^VIOLATION" /var/tmp/seedrun.log | sed -n 2p | cut -c1-200)
  other=$(grep "^UNDECIDED\|^CHECKER" /var/tmp/seedrun.log | head -2 | cut -c1-200)
  echo "SEED $SD check $c: exit=$rc violations=$v :: $first $other"
done
git -C /repo checkout -- .
