"""Contracts on amoco.arch.core.disassembler (C04: the decision tree is only an index;
C11: decoding has no memory of earlier calls).

C04, for every cpu module / mode, every length L in 0..maxlen+1 and ALL byte strings of that
length (symbolic bytes through the real __call__: key computation, big-endian
left-justification, tree walk, leaf scan with the real ispec.decode):

   the specification that produces the returned instruction is the FIRST one, in stable
   most-constrained-first order over ALL specifications of the mode, whose fixed bits and
   length accept the bytes; None iff none accepts.

   plus the structural routing invariant of every tree node (concrete, exhaustive):
   every specification below l[x] of a node (f, l) has adjust(mask) & f == f and
   adjust(fix) & f == x; the leaves partition the mode's specifications and each leaf is a
   subsequence of the scan order.

C11: ghost invariant `pending(self) is None` at EVERY exit (normal or exceptional) of a
top-level __call__, for all byte strings and ALL outcomes of the setup functions (each hook
call is a stub with a symbolic outcome: returns / raises InstructionError / raises any other
exception; no shipped setup function raises DecodeError itself -- scanned on every run).

Setup functions (hooks) and preconditions are replaced by stubs: they are the same function
of the same bytes on the tree route and on the scan route.  The recursive call after a prefix
specification is cut at depth 1 and replaced by the contract itself (induction on the number
of bytes consumed).  The tree's dict nodes are wrapped in a lookup that case-splits on
equality with each existing key (a symbolic key cannot be hashed).
"""
import functools

import amoco.arch.core as AC

from symx.oblig import Obligation, factory
from symx.logic import And, Or, Not, Ite, Eq, Implies
from symx.core import SInt, SBool, OutOfReach
from specs.fmtsem import fmtsem
from contracts.decoder import cpus, flat, word_of, _Concrete

PENDING = "_disassembler__i"


class SymKeyDict(object):
    "dict node of the decision tree with a lookup that works for symbolic keys"

    def __init__(self, d):
        self.d = d

    def get(self, key, default=None):
        if not isinstance(key, (SInt, SBool)):
            return self.d.get(key, default)
        for k in self.d:
            if key == k:      # forks
                return self.d[k]
        return default

    def values(self):
        return self.d.values()

    def items(self):
        return self.d.items()

    def __len__(self):
        return len(self.d)


def wrap_tree(fl):
    f, l = fl
    if f == 0:
        return (0, l)
    return (f, SymKeyDict(dict((k, wrap_tree(v)) for k, v in l.items())))


def get_cpu(mn):
    for m2, k, d in cpus():
        if m2 == mn:
            return d
    raise KeyError(mn)


def scan_order(d, mode):
    "stable most-constrained-first order over all specifications of the mode"
    specs = flat(d.specs[mode])
    # original registration order: the module's ISPECS list was sorted in place by setup();
    # a stable sort is idempotent, so sorting the flattened leaves by (weight desc, position in
    # that list) reproduces the reference order independently of the tree shape
    base = _ispecs_of(d, mode)
    pos = dict((id(s), n) for n, s in enumerate(base))
    return sorted(specs, key=lambda s: (-bin(fmtsem(s.format).mask).count("1"), pos[id(s)]))


_ISPECS = {}


def _ispecs_of(d, mode):
    "the registration-ordered list the tree of this mode was built from"
    key = (id(d), mode)
    if key not in _ISPECS:
        import sys
        specs = flat(d.specs[mode])
        ids = set(id(s) for s in specs)
        found = None
        for m in list(sys.modules.values()):
            L = getattr(m, "ISPECS", None)
            if isinstance(L, list) and L and set(id(s) for s in L) == ids:
                found = L
                break
        _ISPECS[key] = found if found is not None else specs
    return _ISPECS[key]


def accept_term_unused(s, bs, endian):
    "fixed bits and length accept the byte string (from fmtsem, not from the tree)"
    f = fmtsem(s.format)
    blen = f.nbits // 8
    if len(bs) < blen:
        return False
    if f.mask == 0:
        return True
    return Eq(word_of(bs, blen, endian) & f.mask, f.fix)


class Cut(object):
    "result of the recursive call after a prefix specification (inductive hypothesis)"

    def __init__(self, rest):
        self.rest = rest


class _Patched(object):
    """temporarily: wrapped tree dicts, stub hooks (dispatching to .hook, set per path), no
    preconditions, no argument extraction (C03's subject), recursion cut at depth 1"""

    def __init__(self, d, mode):
        self.d, self.mode = d, mode
        self.hook = None
        self.active = False

    def _dispatch(self, spec, obj, **kargs):
        if spec.pfx == "xdata":
            obj.xdata = lambda i, **k: None
        return self.hook(spec, obj, **kargs)

    def enter(self):
        if self.active:
            return
        d = self.d
        self.saved_tree = d.specs[self.mode]
        d.specs[self.mode] = wrap_tree(self.saved_tree)
        self.saved = []
        for s in flat(self.saved_tree):
            self.saved.append((s, s.hook, s.precond, s.fargs, s.iattr))
            s.hook = functools.partial(self._dispatch, s)
            s.precond = None
            s.fargs = {}
            s.iattr = {}
        self.orig_call = AC.disassembler.__call__
        self.depth = depth = [0]
        orig = self.orig_call

        def call(this, bytestring, **kargs):
            if depth[0] >= 1:
                return Cut(bytestring)
            depth[0] += 1
            try:
                return orig(this, bytestring, **kargs)
            finally:
                depth[0] -= 1
        AC.disassembler.__call__ = call
        self.saved_iset = d.iset
        d.iset = lambda *a, **k: self.mode
        setattr(d, PENDING, None)
        self.active = True

    def exit(self):
        if not self.active:
            return
        AC.disassembler.__call__ = self.orig_call
        self.d.specs[self.mode] = self.saved_tree
        for s, h, p, fa, ia in self.saved:
            s.hook, s.precond, s.fargs, s.iattr = h, p, fa, ia
        self.d.iset = self.saved_iset
        setattr(self.d, PENDING, None)
        self.active = False

    def reset(self):
        self.depth[0] = 0
        setattr(self.d, PENDING, None)


class Words(object):
    "per-path cache of the instruction words by length, and of the acceptance terms"

    def __init__(self, bs, endian):
        self.bs, self.endian = bs, endian
        self.w = {}

    def accept(self, s):
        f = FMT(s)
        blen = f.nbits // 8
        if len(self.bs) < blen:
            return False
        if f.mask == 0:
            return True
        if blen not in self.w:
            self.w[blen] = word_of(self.bs, blen, self.endian)
        return Eq(self.w[blen] & f.mask, f.fix)


_FMT = {}


def FMT(s):
    k = id(s)
    if k not in _FMT:
        _FMT[k] = fmtsem(s.format)
    return _FMT[k]


@factory
def first_match(cpu, mode, L, b0=None):
    """b0 = (lo, hi): the obligation covers the byte strings whose first byte lies in [lo, hi]
    (the obligations of one length partition the byte strings; they only exist to spread the
    path tree over the workers)"""
    d = get_cpu(cpu)
    order = scan_order(d, mode)
    index = dict((id(s), k) for k, s in enumerate(order))
    P = _Patched(d, mode)

    def body(V):
        bs = V.bytes("b", L)
        if b0 is not None:
            V.assume(And(bs[0] >= b0[0], bs[0] <= b0[1]))
        P.enter()
        P.reset()
        P.hook = lambda spec, obj, **kargs: None
        e = d.endian()
        r = d(bs)
        pend = getattr(d, PENDING)
        Wd = Words(bs, e)
        post = {}
        if isinstance(r, Cut):
            w = pend.spec if pend is not None else None
            post["C04 prefix recursion continues after the prefix bytes"] = (len(r.rest) == L - FMT(w).nbits // 8) if w is not None else False
        elif r is None:
            w = None
        else:
            w = r.spec
        if w is None:
            post["C04 None only when no specification accepts"] = Not(Or([Wd.accept(s) for s in order]))
        else:
            k = index.get(id(w))
            post["C04 winner belongs to the mode"] = k is not None
            if k is not None:
                post["C04 winner accepts"] = Wd.accept(w)
                post["C04 no earlier specification of the scan order accepts"] = Not(Or([Wd.accept(s) for s in order[:k]]))
        return post
    W = 8 * max(L, d.maxlen) + 24
    ob = Obligation("X/first-match/%s/m%d/L=%d%s" % (".".join(cpu.split(".")[2:]), mode, L, "" if b0 is None else "/b0=%02x-%02x" % tuple(b0)), body, ["C04"],
                    ["amoco.arch.core:disassembler.__call__", "amoco.arch.core:disassembler.setup (tree as built)", "amoco.arch.core:ispec.decode"],
                    mode="bv", W=W, level="P", samples=8, maxpaths=60000, index_limit=300, vc_timeout_ms=30000, budget_s=900)
    ob.teardown = P.exit
    return ob


def _routing_check(only=None):
    n = 0
    fails = []
    samples = []
    for mn, k, d in cpus():
        for mode, tree in enumerate(d.specs):
            key = {"cpu": mn, "mode": mode}
            if only is not None and only != key:
                continue
            e = d.endian()
            maxsize = d.maxlen * 8

            def adj(val, size):
                return val << (maxsize - size) if e == -1 else val

            order = scan_order(d, mode)
            index = dict((id(s), j) for j, s in enumerate(order))
            leaves = []

            def walk(fl, constraints):
                f, l = fl
                if f == 0:
                    leaves.append(list(l))
                    for s in l:
                        fm = fmtsem(s.format)
                        for (ff, x) in constraints:
                            if adj(fm.mask, fm.nbits) & ff != ff or adj(fm.fix, fm.nbits) & ff != x:
                                fails.append((key, "routing: %s reached through (mask %x, value %x) which its fixed bits do not imply" % (s.format, ff, x)))
                    return
                for x, sub in l.items():
                    walk(sub, constraints + [(f, x)])
            walk(tree, [])
            n += 1
            got = [id(s) for L in leaves for s in L]
            if sorted(got) != sorted(index):
                fails.append((key, "leaves do not partition the specifications of the mode (%d vs %d)" % (len(got), len(index))))
            for L in leaves:
                ks = [index[id(s)] for s in L if id(s) in index]
                if ks != sorted(ks):
                    fails.append((key, "a leaf is not a subsequence of the most-constrained-first order"))
            if len(samples) < 4:
                samples.append({"cpu": mn, "mode": mode, "specifications": len(index), "leaves": len(leaves), "largest_leaf": max(len(L) for L in leaves)})
    return n, fails, samples


@factory
def routing_all():
    return _Concrete("X/routing/all-trees", ["C04"], ["amoco.arch.core:disassembler.setup"], _routing_check,
                     ("contracts.disasm:routing_all", {}))


# ---------------------------------------------------------------------------------------
# C11: ghost invariant pending is None at every exit, all hook outcomes
# ---------------------------------------------------------------------------------------

class Foreign(Exception):
    "any exception other than DecodeError / InstructionError raised by a setup function"


@factory
def no_memory(cpu, mode, L, b0=None, entry="fresh"):
    """entry = 'fresh': a top-level call (pending slot empty, the invariant);
    entry = 'pending': the recursive call made after a prefix specification was accepted (the
    slot holds the prefix instruction) -- the state the cut of 'fresh' hands over; only for
    ISAs that have prefix specifications"""
    d = get_cpu(cpu)
    P = _Patched(d, mode)

    def body(V):
        bs = V.bytes("b", L)
        if b0 is not None:
            V.assume(And(bs[0] >= b0[0], bs[0] <= b0[1]))
        ncall = [0]
        pfx = None
        if entry == "pending":
            pfx = V.bytes("p", 1)

        def hook(spec, obj, **kargs):
            k = ncall[0]
            ncall[0] += 1
            o = V.int("outcome%d" % k, 0, 2)
            if o == 0:
                return None
            if o == 1:
                raise AC.InstructionError(obj)
            raise Foreign("setup function failed")
        P.enter()
        P.reset()
        P.hook = hook
        exc = None
        if pfx is not None:
            setattr(d, PENDING, d.iclass(pfx))
        try:
            r = d(bs)
        except (Foreign, AC.DecodeError, AC.InstructionError) as e:
            r = None
            exc = e
        pend = getattr(d, PENDING)
        post = {}
        if isinstance(r, Cut):
            # the recursive call is the top-level call's tail: its own exits satisfy the
            # invariant by induction; here the pending instruction must be exactly the prefix
            seen = bs if pfx is None else pfx + bs
            post["C11 pending instruction built from this call's bytes only"] = (pend is not None) and Eq(pend.bytes, seen[0:len(pend.bytes)])
        else:
            post["C11 pending(self) is None at exit%s" % (" by exception %s" % type(exc).__name__ if exc else "")] = (pend is None)
            if r is not None and exc is None:
                seen = bs if pfx is None else pfx + bs
                post["C11 instruction bytes are a prefix of this call's bytes"] = Eq(r.bytes, seen[0:len(r.bytes)])
        return post
    W = 8 * max(L, d.maxlen) + 24
    ob = Obligation("X/no-memory/%s/m%d/%s/L=%d%s" % (".".join(cpu.split(".")[2:]), mode, entry, L, "" if b0 is None else "/b0=%02x-%02x" % tuple(b0)), body, ["C11"],
                    ["amoco.arch.core:disassembler.__call__", "amoco.arch.core:ispec.decode"],
                    mode="bv", W=W, level="Bsym", bound="prefix chain cut after the first prefix specification (the recursive call is replaced by the contract: induction on consumed bytes); hooks are stubs with a symbolic outcome",
                    samples=8, maxpaths=200000, index_limit=300, vc_timeout_ms=30000, budget_s=900)
    ob.teardown = P.exit
    return ob


def _hooks_never_raise_decodeerror(only=None):
    """assumption of the hook stub, checked on every run: no specification module raises
    DecodeError itself (ispec.decode does not roll back on it)"""
    import os, re
    import amoco.arch
    root = os.path.dirname(amoco.arch.__file__)
    n = 0
    fails = []
    for dp, dn, fns in os.walk(root):
        for fn in fns:
            if fn.endswith(".py") and fn != "core.py":
                n += 1
                src = open(os.path.join(dp, fn)).read()
                if re.search(r"raise\s+(\w+\.)?DecodeError", src):
                    fails.append(({"file": os.path.join(dp, fn)}, "a specification module raises DecodeError itself"))
    return n, fails, [{"files_scanned": n}]


@factory
def hook_assumption():
    return _Concrete("X/assumption/hooks-never-raise-DecodeError", ["C11"], ["amoco.arch.*: setup functions"],
                     _hooks_never_raise_decodeerror, ("contracts.disasm:hook_assumption", {}))


@factory
def rollback(cpu, mode, n):
    "ispec.decode on InstructionError: the pending instruction is left as it was (bytes, attributes)"
    from contracts.decoder import spec_by_ref
    s, d = spec_by_ref(cpu, mode, n)
    f = fmtsem(s.format)
    blen = f.nbits // 8

    def body(V):
        bs = V.bytes("b", blen + 1)
        plen = 2
        pre = V.bytes("p", plen)
        i0 = d.iclass(pre)
        before_attrs = set(vars(i0)) if hasattr(i0, "__dict__") else set()

        extra = V.bytes("x", 2)

        def hook(obj, **kargs):
            # like the variable-length setup functions, consume more bytes before giving up
            obj.bytes += extra
            raise AC.InstructionError(obj)
        old_hook, old_pre = s.hook, s.precond
        s.hook = hook
        s.precond = None
        try:
            try:
                s.decode(bs, 1, i=i0, iclass=d.iclass)
                return {"rollback: InstructionError propagates": False}
            except AC.DecodeError:
                return {"rollback: rejected before touching the pending instruction": Eq(i0.bytes, pre)}
            except AC.InstructionError:
                pass
        finally:
            s.hook, s.precond = old_hook, old_pre
        post = {"rollback: pending bytes restored (also when the setup function had appended bytes)": Eq(i0.bytes, pre),
                "rollback: attributes set from the format removed": all(not hasattr(i0, k) for k in s.iattr)}
        return post
    return Obligation("X/rollback/%s/m%d/%04d" % (".".join(cpu.split(".")[2:]), mode, n), body, ["C11", "C05"],
                      ["amoco.arch.core:ispec.decode (rollback on InstructionError)"], mode="bv", W=8 * (blen + 4) + 16,
                      level="P", samples=2, index_limit=300, maxpaths=40000)


def lengths(d, tier, rng):
    if tier == "thorough":
        return list(range(0, d.maxlen + 2))
    base = sorted(set([0, 1, 2, d.maxlen, d.maxlen + 1]))
    return base


HEAVY = ("amoco.arch.x86.cpu_x86", "amoco.arch.x64.cpu_x64")


def obligations(prop, tier, seed):
    import random
    rng = random.Random("disasm/%s/%s" % (prop, seed))
    obs = []
    if prop == "C04":
        obs.append(routing_all())
    for mn, k, d in cpus():
        for mode in range(len(d.specs)):
            Ls = lengths(d, tier, rng)
            if mn in HEAVY or d.maxlen > 8:
                # long variable-length ISAs: the fixed bits of every specification lie in the
                # first bytes; lengths beyond them only add unread bytes
                Ls = [l for l in Ls if l <= 4] + [d.maxlen]
                Ls = sorted(set(Ls))
            nspec = len(flat(d.specs[mode]))
            for L in Ls:
                slices = [None]
                if L >= 1 and nspec > 60:
                    k = 16 if nspec > 150 else 4
                    step = 256 // k
                    slices = [(j * step, j * step + step - 1) for j in range(k)]
                for b0 in slices:
                    if prop == "C04":
                        o = first_match(cpu=mn, mode=mode, L=L, b0=b0)
                        o.weight = 5 + nspec // (10 * len(slices))
                        obs.append(o)
                    if prop == "C11":
                        entries = ["fresh"]
                        if any(sp.pfx is True for sp in flat(d.specs[mode])):
                            entries.append("pending")
                        for entry in entries:
                            o = no_memory(cpu=mn, mode=mode, L=L, b0=b0, entry=entry)
                            o.weight = 5 + nspec // (5 * len(slices))
                            obs.append(o)
    if prop in ("C11", "C05"):
        if prop == "C11":
            obs.append(hook_assumption())
        from contracts.decoder import all_specs
        specs = all_specs()
        pick = specs if tier == "thorough" else rng.sample(specs, 300)
        for (mn, mode, n, s) in pick:
            o = rollback(cpu=mn, mode=mode, n=n)
            o.optional = True     # seeded sample; bit-string fields may exceed the enumeration limit
            obs.append(o)
    return [o for o in obs if prop in o.props]
