"""Contracts on amoco.code.block and amoco.cfg.graph (C18).

Bounded symbolic: a block of k <= 4 stub instructions whose LENGTHS and start address are
symbolic: length / support / raw are the concatenation of the instructions'; slicing and cutting
at an instruction boundary keep exactly the instructions of the range (and refuse positions
that are not boundaries).

Run-time contract (small-scope exhaustive, concrete): a stream of 6 instructions with block ends
at fixed positions; blocks are the runs from any start to the next block end; every subset of
<= 4 blocks is inserted into a cfg.graph in EVERY order.  Invariant after every insertion:
the nodes of graph.support are pairwise disjoint, contain every inserted instruction exactly
once, and every split left a fall-through edge from the first part to the second.
"""
import itertools
import random

import amoco.cas.expressions as E
import amoco.code as CODE
import amoco.cfg as CFG

from symx.oblig import Obligation, factory
from symx.logic import And, Or, Not, Ite, Eq, Implies
from symx.core import SymBytes
from contracts.formats import _RtGeneric


class StubInstr(object):
    type = 1

    def __init__(self, address, length, bytes_, name):
        self.address = address
        self._len = length
        self.bytes = bytes_
        self.mnemonic = name
        self.operands = []
        self.misc = {}

    @property
    def length(self):
        return self._len

    def __repr__(self):
        return "<%s>" % self.mnemonic


LMAX = {1: 15, 2: 15, 3: 5, 4: 3}     # instruction lengths range over 1..LMAX[k] (slicing enumerates the boundaries)


@factory
def block_ops(k):
    def body(V):
        a0 = V.int("a0", 0, 1 << 30)
        lens = [V.int("l%d" % j, 1, LMAX[k]) for j in range(k)]
        ins = []
        addr = a0
        addrs = []
        for j in range(k):
            c = E.cst(0, 32)
            c.v = addr
            ins.append(StubInstr(c, lens[j], None, "i%d" % j))
            addrs.append(addr)
            addr = addr + lens[j]
        total = addr - a0
        b = CODE.block(list(ins))
        post = {}
        post["C18 length is the sum of the instruction lengths"] = Eq(b.length, total)
        sta, sto = b.support
        post["C18 support starts at the first instruction"] = Eq(sta.v, a0)
        post["C18 support ends where the last instruction ends"] = Eq(sto.v, (a0 + total) % (1 << 32))
        # slicing at instruction boundaries i..j
        for (i, j) in [(0, k), (0, 1), (k - 1, k), (1, k)] if k > 1 else [(0, 1)]:
            if i >= j:
                continue
            lo = sum(lens[:i], 0)
            hi = sum(lens[:j], 0)
            s = b[lo:hi]
            ok = s is not None and [x.mnemonic for x in s.instr] == ["i%d" % t for t in range(i, j)]
            post["C18 slice [%d:%d) keeps exactly those instructions" % (i, j)] = bool(ok)
            if ok:
                post["C18 slice [%d:%d) length" % (i, j)] = Eq(s.length, hi - lo)
        # a position strictly inside the first instruction is refused
        inside = V.int("inside", 1, LMAX[k])
        V.assume(inside < lens[0])
        post["C18 a slice that does not start at a boundary is refused"] = (b[inside:total] is None)
        # cutting at the address of instruction k-1
        if k > 1:
            b2 = CODE.block(list(ins))
            n = b2.cut(ins[k - 1].address)
            post["C18 cut removes the instructions from the cut address on"] = (n == 1 and [x.mnemonic for x in b2.instr] == ["i%d" % t for t in range(k - 1)])
            post["C18 cut block length"] = Eq(b2.length, total - lens[k - 1])
        return post
    return Obligation("K18/block/k=%d" % k, body, ["C18"],
                      ["amoco.code:block.length", "amoco.code:block.support", "amoco.code:block.__getitem__", "amoco.code:block.cut"],
                      mode="int", level="Bsym", bound="blocks of <= 4 instructions, lengths 1..15 (k<=2), 1..5 (k=3), 1..3 (k=4) and all start addresses symbolic",
                      samples=20, index_limit=80, maxpaths=20000)


# ---------------------------------------------------------------------------------------

def _graph_case(lengths, ends, starts_order, base=0x1000):
    n = len(lengths)
    addrs = [base]
    for l in lengths:
        addrs.append(addrs[-1] + l)

    def blk(s):
        e = min(x for x in ends if x >= s)
        return [StubInstr(E.cst(addrs[t], 32), lengths[t], bytes([t]) * lengths[t], "i%d" % t) for t in range(s, e + 1)]
    g = CFG.graph()
    inserted = set()
    bad = []
    for s in starts_order:
        instrs = blk(s)
        for x in instrs:
            inserted.add(x.address.v)
        try:
            g.add_vertex(CFG.node(CODE.block(instrs)))
        except Exception as ex:
            from contracts.rt import sig
            bad.append("add_vertex raised %s" % sig(ex))
            return bad
        # invariant of the main support
        nodes = [mo.data.val for mo in g.support._map]
        seen = {}
        prev_end = None
        for nd in nodes:
            a, e = nd.data.support
            if a is None:
                bad.append("empty block kept in the support")
                continue
            if prev_end is not None and a.v < prev_end:
                bad.append("blocks overlap at %#x" % a.v)
            prev_end = e.v
            for x in nd.data.instr:
                seen[x.address.v] = seen.get(x.address.v, 0) + 1
        if set(seen) != inserted:
            bad.append("after inserting starts %s the support holds instructions %s, inserted %s" % (starts_order, sorted(map(hex, seen)), sorted(map(hex, inserted))))
        if any(c != 1 for c in seen.values()):
            bad.append("an instruction appears in more than one block")
        # fall-through edges: consecutive support nodes inside one original block are linked
        for u, v in zip(nodes, nodes[1:]):
            if u.data.support[1].v == v.data.support[0].v:
                last = int(u.data.instr[-1].mnemonic[1:])
                if last not in ends:      # u was split from v's block (no block end between them)
                    if v not in u.N(+1):
                        bad.append("no fall-through edge from block %#x to %#x" % (u.data.address.v, v.data.address.v))
        if bad:
            break
    return bad


def _graph_rt(tier, seed, only=None):
    rng = random.Random("cfg/%s" % seed)
    fails = []
    samples = []
    n = 0
    distinct = set()
    configs = [([2, 3, 1, 4, 2, 1], (2, 5)), ([1, 1, 1, 1, 1, 1], (5,)), ([4, 2, 2, 3, 1, 5], (1, 3, 5))]
    if tier == "thorough":
        for _ in range(40):
            configs.append(([rng.randint(1, 6) for _ in range(6)], tuple(sorted(set(rng.sample(range(5), rng.randint(0, 2))) | {5}))))
    for lengths, ends in configs:
        for r in range(1, 7 if tier == "thorough" else 5):
            for subset in itertools.combinations(range(6), r):
                for order in itertools.permutations(subset):
                    if only is not None and (list(order) != only["order"] or lengths != only["lengths"] or list(ends) != only["ends"]):
                        continue
                    n += 1
                    distinct.add((tuple(lengths), ends, order))
                    bad = _graph_case(lengths, ends, list(order))
                    if bad:
                        fails.append(({"lengths": lengths, "ends": list(ends), "order": list(order), "sig": "graph:" + bad[0].split(" ")[0] + ":" + bad[0].split(" ")[1]}, bad[0]))
                    elif len(samples) < 3 and r == 3:
                        samples.append({"lengths": lengths, "block_ends": list(ends), "insertion_order_of_starts": list(order)})
    return n, fails, samples, len(distinct)


def graph_rt(tier):
    return _RtGeneric("K18/graph/insertion-orders", ["C18"], ["amoco.cfg:graph.add_vertex", "amoco.cfg:graph.__cut_add_vertex", "amoco.cfg:node.cut", "amoco.code:block.cut",
                                                              "amoco.system.memory:MemoryZone.locate", "amoco.system.memory:MemoryZone.write"],
                      _graph_rt, ("contracts.cfg:graph_rt", {"tier": tier}),
                      "small-scope exhaustive: streams of 6 instructions, every subset of <= 4 (thorough: all 6) block starts in every insertion order; distinct = different (stream, order) pairs", tier)


def _lsweep_rt(tier, seed, only=None):
    """linear sweep: the blocks yielded by lsweep.iterblocks partition the swept instructions, for raw
    buffers made of decodable instructions and EVERY prefix of them (so that a buffer also ends right
    after a branch, and after a delayed branch without its delay slot)"""
    import importlib
    import amoco
    from amoco.sa import lsweep
    from contracts.rt import corpus, decode, sig
    from contracts.decoder import cpus
    rng = random.Random("lsweep/%s" % seed)
    fails, samples, distinct = [], [], set()
    n = 0
    allc = dict((mn, d) for mn, k, d in cpus())
    for mn in ("amoco.arch.sparc.cpu_v8", "amoco.arch.mips.cpu_r3000LE", "amoco.arch.x86.cpu_x86", "amoco.arch.riscv.cpu_rv32i"):
        if mn not in allc:
            continue
        cpu = importlib.import_module(mn)
        d = allc[mn]
        L = corpus(mn, d, 0, 1, rng, 0)
        pool = []
        for b in rng.sample(L, len(L)):
            st, desc, i = decode(d, b)
            if st == "ok" and i is not None and len(bytes(i.bytes)) == i.length:
                pool.append((bytes(i.bytes), i.mnemonic, bool(i.misc.get("delayed")), i.type))
            if len(pool) >= 400:
                break
        branches = [x for x in pool if x[3] == 1 or x[2]]      # type_control_flow or delayed
        for _ in range(6 if tier == "quick" else 80):
            seq = [rng.choice(pool if rng.random() < 0.6 or not branches else branches) for _ in range(rng.randint(3, 9))]
            for k in range(1, len(seq) + 1):
                if only is not None and (only["cpu"] != mn or only["code"] != [x[0].hex() for x in seq[:k]]):
                    continue
                buf = b"".join(x[0] for x in seq[:k])
                n += 1
                distinct.add((mn, tuple(x[1] for x in seq[:k])))
                inp = {"cpu": mn, "code": [x[0].hex() for x in seq[:k]]}
                try:
                    p = amoco.load_program(buf, cpu=cpu)
                    z = lsweep(p)
                    swept = [(i.address.v, bytes(i.bytes)) for i in z.sequence(0)]
                    blocks = list(z.iterblocks(0))
                except Exception as ex:
                    fails.append((dict(inp, sig="lsweep:raise:" + sig(ex)), "sweeping %s raised %s" % ([x[1] for x in seq[:k]], sig(ex))))
                    continue
                got = [(i.address.v, bytes(i.bytes)) for b in blocks for i in b.instr]
                if got != swept:
                    missing = [hex(a) for a, _ in swept if (a, _) not in got]
                    fails.append((dict(inp, sig="lsweep:partition"), "the blocks of %s do not partition the swept instructions (%d swept, %d in blocks, missing %s)" % ([x[1] for x in seq[:k]], len(swept), len(got), missing[:3])))
                elif any(len(b.instr) == 0 for b in blocks):
                    fails.append((dict(inp, sig="lsweep:empty-block"), "an empty block was yielded for %s" % [x[1] for x in seq[:k]]))
                elif len(samples) < 3 and k == len(seq):
                    samples.append({"cpu": mn, "mnemonics": [x[1] for x in seq], "blocks": [len(b.instr) for b in blocks]})
    return n, fails, samples, len(distinct)


def lsweep_rt(tier):
    return _RtGeneric("K18/lsweep/partition", ["C18"], ["amoco.sa.lsweep:lsweep.sequence", "amoco.sa.lsweep:lsweep.iterblocks", "amoco.code:block.__init__", "amoco.system.core:CoreExec.read_instruction"],
                      _lsweep_rt, ("contracts.cfg:lsweep_rt", {"tier": tier}),
                      "raw buffers of 3-9 decodable instructions (SPARC, MIPS, x86, RV32I; branches over-represented) and every prefix of them; distinct = different mnemonic sequences", tier)


def obligations(prop, tier, seed):
    obs = []
    obs.append(lsweep_rt(tier))
    for k in (1, 2, 3, 4):
        obs.append(block_ops(k=k))
    obs.append(graph_rt(tier))
    return obs
