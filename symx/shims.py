"""Proxy-awareness shims bound in the *global namespace of the modules under verification*
(only inside the verifier process; /repo's files are not edited).  Every shim is the
identity on concrete arguments: the repository's own tests pass with the shims installed
(`./vf selftest --shim-tests`).
"""
import builtins
import codecs as _codecs
import types

from .core import SInt, SBool, SymBytes, OutOfReach, lift, cur

_isinstance = builtins.isinstance
_bytes = builtins.bytes
_int = builtins.int
_bool = builtins.bool


def sym_bytes(x=b"", *a):
    if _isinstance(x, SymBytes):
        return x
    if _isinstance(x, (list, tuple)):
        for e in x:
            if _isinstance(e, (SInt, SBool)):
                return SymBytes(x)
    if _isinstance(x, SInt):
        raise OutOfReach("bytes(symbolic length)")
    return _bytes(x, *a)


def sym_int(x=0, *a):
    if _isinstance(x, SInt):
        return x
    if _isinstance(x, SBool):
        return x._int()
    return _int(x, *a)


sym_int.from_bytes = _int.from_bytes


def sym_bool(x=False):
    if _isinstance(x, SBool):
        return x
    if _isinstance(x, SInt):
        return x != 0
    return _bool(x)


_back = {}


def sym_isinstance(x, t):
    ts = t if _isinstance(t, tuple) else (t,)
    ts = tuple(_back.get(id(tt), tt) for tt in ts)
    if _isinstance(x, SInt):
        for tt in ts:
            if tt is _int:
                return True
        return _isinstance(x, ts)
    if _isinstance(x, SBool):
        for tt in ts:
            if tt is _int or tt is _bool:
                return True
        return _isinstance(x, ts)
    if _isinstance(x, SymBytes):
        for tt in ts:
            if tt is _bytes:
                return True
        return _isinstance(x, ts)
    return _isinstance(x, ts)


_back[id(sym_bytes)] = _bytes
_back[id(sym_int)] = _int
_back[id(sym_bool)] = _bool


class _Codecs(object):
    "codecs.encode(bytes,'hex') is only used by amoco to build log messages"

    def __getattr__(self, k):
        return getattr(_codecs, k)

    @staticmethod
    def encode(obj, *a, **k):
        if _isinstance(obj, SymBytes):
            return b"<symbolic>"
        return _codecs.encode(obj, *a, **k)


SHIMS = {
    "isinstance": sym_isinstance,
    "bytes": sym_bytes,
    "int": sym_int,
    "bool": sym_bool,
}

DEFAULT_MODULES = (
    "amoco.cas.expressions",
    "amoco.cas.mapper",
    "amoco.cas.utils",
    "amoco.system.memory",
    "amoco.arch.core",
    "amoco.system.structs.core",
    "amoco.system.structs.fields",
    "amoco.system.structs.utils",
    "amoco.system.elf",
    "crysp.bits",
)

_installed = []


def install(modules=DEFAULT_MODULES, names=None):
    import importlib
    done = []
    for mn in modules:
        m = importlib.import_module(mn)
        for k, v in SHIMS.items():
            if names is not None and k not in names:
                continue
            if k in m.__dict__ and m.__dict__[k] is not v and not (k in ("isinstance", "bytes", "int", "bool")):
                continue
            m.__dict__[k] = v
        if "codecs" in m.__dict__ and _isinstance(m.__dict__["codecs"], types.ModuleType):
            m.__dict__["codecs"] = _Codecs()
        done.append(mn)
    _installed.extend(done)
    _wrap_cst_text()
    return done


def _wrap_cst_text():
    "pass-through wrapper of cst.__unicode__ that tells the engine which concrete constants were rendered"
    import amoco.cas.expressions as E
    from .core import Ctx
    if getattr(E.cst.__unicode__, "_symx", False):
        return
    orig = E.cst.__unicode__

    def __unicode__(self):
        r = orig(self)
        c = Ctx.cur
        if c is not None and c.markers is not None:
            v = self.v
            if _isinstance(v, _int) and not _isinstance(self.value, SInt):
                c.note_rendered(self.value)
        return r
    __unicode__._symx = True
    E.cst.__unicode__ = __unicode__


def describe():
    return ["module-namespace shim %s in: %s" % (k, ", ".join(sorted(set(_installed)))) for k in SHIMS] + \
        ["codecs.encode shim (log messages only) in modules that import codecs",
         "pass-through wrapper of cst.__unicode__ recording rendered concrete constants (text-based hashing of symbolic constants)"]
