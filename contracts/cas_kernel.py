"""Layer K: contracts on the constant kernel of amoco.cas.expressions (class cst and the
ror/rol/ltu/geu helpers), for every width, all operand values symbolic.

Representation invariant valid(c): 0 <= c.v < 2^c.size, c.sf in {True, False}.
Each contract: pre = valid(operands) [+ the property's own preconditions];
post = result is a cst, result.size as the construction dictates (C12), valid(result),
result.v == REF(operands) (C01), operands' (size, v) unchanged (C13).
"""
import amoco.cas.expressions as E

from symx.oblig import Obligation, factory
from symx.logic import And, Or, Not, Ite, Eq, Implies
from specs import refsem as R

QUICK_WIDTHS = (1, 2, 3, 7, 8, 9, 16, 31, 32, 33, 64, 65, 127, 128)
ALL_WIDTHS = tuple(range(1, 129))


def mkc(v, w, sf):
    c = E.cst(0, w)
    c.v = v
    c.sf = sf
    return c


def sfs(s):
    return {"F": False, "T": True}[s]


def _res(r, w_expected, ref, operands):
    "standard postcondition for a result that must be a constant"
    post = {}
    ok = bool(getattr(r, "_is_cst", 0)) and isinstance(r, E.cst)
    post["result is a constant"] = ok
    if not ok:
        return post
    post["C12 width"] = (r.size == w_expected)
    post["valid(result)"] = And(r.v >= 0, r.v < (1 << w_expected))
    post["C01 value"] = Eq(r.v, ref)
    for k, (c, v0, w0) in enumerate(operands):
        post["C13 operand %d unchanged" % k] = And(c.size == w0, Eq(c.v, v0))
    return post


# table: name -> (python callable on csts, ref(a,b,w,signed), mode, sf policy, needs b != 0, result width)
def _call(name):
    import operator
    return {
        "add": operator.add, "sub": operator.sub, "mul": operator.mul, "pow": operator.pow,
        "div": operator.truediv, "mod": operator.mod, "and": operator.and_, "or": operator.or_,
        "xor": operator.xor, "eq": operator.eq, "ne": operator.ne, "lt": operator.lt,
        "le": operator.le, "gt": operator.gt, "ge": operator.ge,
        "ltu": E.ltu, "geu": E.geu,
    }[name]


BINOPS = {
    # name: (ref, mode, sfpolicy, nonzero divisor, result width fn)
    "add": (lambda a, b, w, s: R.add(a, b, w), "int", "any", False, lambda w: w),
    "sub": (lambda a, b, w, s: R.sub(a, b, w), "int", "any", False, lambda w: w),
    "mul": (lambda a, b, w, s: R.mul(a, b, w), "int", "any", False, lambda w: w),
    "pow": (lambda a, b, w, s: R.mul2(a, b, w, s), "int", "same", False, lambda w: 2 * w),
    "div": (lambda a, b, w, s: R.div(a, b, w, s), "int", "same", True, lambda w: w),
    "mod": (lambda a, b, w, s: R.rem(a, b, w, s), "int", "same", True, lambda w: w),
    "and": (lambda a, b, w, s: R.band(a, b, w), "bv", "any", False, lambda w: w),
    "or": (lambda a, b, w, s: R.bor(a, b, w), "bv", "any", False, lambda w: w),
    "xor": (lambda a, b, w, s: R.bxor(a, b, w), "bv", "any", False, lambda w: w),
    "eq": (lambda a, b, w, s: R.eq(a, b, w), "int", "any", False, lambda w: 1),
    "ne": (lambda a, b, w, s: R.ne(a, b, w), "int", "any", False, lambda w: 1),
    "lt": (lambda a, b, w, s: R.lt(a, b, w, s), "int", "same", False, lambda w: 1),
    "le": (lambda a, b, w, s: R.le(a, b, w, s), "int", "same", False, lambda w: 1),
    "gt": (lambda a, b, w, s: R.gt(a, b, w, s), "int", "same", False, lambda w: 1),
    "ge": (lambda a, b, w, s: R.ge(a, b, w, s), "int", "same", False, lambda w: 1),
    "ltu": (lambda a, b, w, s: R.ltu(a, b, w), "int", "any", False, lambda w: 1),
    "geu": (lambda a, b, w, s: R.geu(a, b, w), "int", "any", False, lambda w: 1),
}

FUC = {
    "add": "cst.__add__", "sub": "cst.__sub__", "mul": "cst.__mul__", "pow": "cst.__pow__",
    "div": "cst.__truediv__", "mod": "cst.__mod__", "and": "cst.__and__", "or": "cst.__or__",
    "xor": "cst.__xor__", "eq": "cst.__eq__", "ne": "cst.__ne__", "lt": "cst.__lt__",
    "le": "cst.__le__", "gt": "cst.__gt__", "ge": "cst.__ge__", "ltu": "ltu", "geu": "geu",
}


@factory
def binop(name, w, sf):
    ref, mode, pol, nz, rw = BINOPS[name]
    sa, sb = sfs(sf[0]), sfs(sf[1])
    f = _call(name)

    def body(V):
        a = V.int("a", 0, (1 << w) - 1)
        b = V.int("b", 0, (1 << w) - 1)
        if nz:
            V.assume(b != 0)
        ca, cb = mkc(a, w, sa), mkc(b, w, sb)
        r = f(ca, cb)
        return _res(r, rw(w), ref(a, b, w, sa), [(ca, a, w), (cb, b, w)])
    props = ["C01", "C12", "C13"]
    optional = False
    if name in ("div", "mod") and sa:
        # signed division: bit-precise (bvsdiv circuits) up to 9 bits; above, the integer
        # encoding needs non-linear reasoning whose outcome depends on the solver's luck:
        # attempted, reported separately, never counted when it does not decide
        if w <= 9:
            mode = "bv"
        else:
            optional = True
    ob = Obligation("K/%s/w=%d/sf=%s" % (name, w, sf), body, props,
                    ["amoco.cas.expressions:" + FUC[name], "amoco.cas.expressions:cst.value"] +
                    (["amoco.cas.expressions:_cdiv", "amoco.cas.expressions:_crem"] if name in ("div", "mod") else []),
                    mode=mode, W=(2 * w + 8 if mode == "bv" else None), level="P" if not optional else "Bsym",
                    bound=None if not optional else "signed division above 9 bits: attempted with the integer encoding (non-linear), optional",
                    vc_timeout_ms=6000 if optional else 60000, budget_s=25 if optional else 600)
    ob.optional = optional
    return ob


SHIFTS = {
    "lsl": (lambda c, n: c << n, R.lsl, "cst.__lshift__"),
    "lsr": (lambda c, n: c >> n, R.lsr, "cst.__rshift__"),
    "asr": (lambda c, n: c // n, R.asr, "cst.__floordiv__"),
}


@factory
def shift(name, w, sf, amount):
    """amount = 'cst': the amount is an unsigned constant of the operand's width, symbolic in
    [0, min(2^w-1, 4w)]; amount = 'int': a Python int (converted by the operator API)."""
    f, ref, fuc = SHIFTS[name]
    sa = sfs(sf)
    top = min((1 << w) - 1, 4 * w)

    def body(V):
        a = V.int("a", 0, (1 << w) - 1)
        n = V.int("n", 0, top)
        ca = mkc(a, w, sa)
        if amount == "cst":
            cn = mkc(n, w, False)
            r = f(ca, cn)
            ops = [(ca, a, w), (cn, n, w)]
        else:
            r = f(ca, n)
            ops = [(ca, a, w)]
        return _res(r, w, ref(a, n, w), ops)
    return Obligation("K/%s/w=%d/sf=%s/amount=%s" % (name, w, sf, amount), body, ["C01", "C12", "C13"],
                      ["amoco.cas.expressions:" + fuc, "amoco.cas.expressions:cst.value"],
                      mode="int", level="P", index_limit=4 * w + 8, maxpaths=40000)


@factory
def rotate(name, w, sf, amount):
    "rotations by less than the width"
    sa = sfs(sf)
    f = {"ror": E.ror, "rol": E.rol}[name]
    ref = {"ror": R.ror, "rol": R.rol}[name]

    def body(V):
        a = V.int("a", 0, (1 << w) - 1)
        n = V.int("n", 0, w - 1)
        ca = mkc(a, w, sa)
        if amount == "cst":
            cn = mkc(n, w, False)
            r = f(ca, cn)
            ops = [(ca, a, w), (cn, n, w)]
        else:
            r = f(ca, n)
            ops = [(ca, a, w)]
        return _res(r, w, ref(a, n, w), ops)
    return Obligation("K/%s/w=%d/sf=%s/amount=%s" % (name, w, sf, amount), body, ["C01", "C12", "C13"],
                      ["amoco.cas.expressions:" + name, "amoco.cas.expressions:cst.__lshift__",
                       "amoco.cas.expressions:cst.__rshift__", "amoco.cas.expressions:cst.__or__"],
                      mode="bv", W=2 * w + 8, level="P", index_limit=w + 8)


@factory
def unop(name, w, sf):
    sa = sfs(sf)
    f = {"inv": lambda c: ~c, "neg": lambda c: -c, "pos": lambda c: +c}[name]
    ref = {"inv": R.inv, "neg": R.neg, "pos": lambda a, w: a}[name]

    def body(V):
        a = V.int("a", 0, (1 << w) - 1)
        ca = mkc(a, w, sa)
        r = f(ca)
        return _res(r, w, ref(a, w), [(ca, a, w)])
    return Obligation("K/%s/w=%d/sf=%s" % (name, w, sf), body, ["C01", "C12", "C13"],
                      ["amoco.cas.expressions:cst.__%s__" % {"inv": "invert", "neg": "neg", "pos": "pos"}[name]],
                      mode="int", level="P")


@factory
def init(w):
    "cst(v, w) for any integer v in [-2^w, 2^w]: value wraps, sign flag records v < 0"
    def body(V):
        v = V.int("v", -(1 << w), 1 << w)
        c = E.cst(v, w)
        post = {"C12 width": c.size == w,
                "valid": And(c.v >= 0, c.v < (1 << w)),
                "C01 value": Eq(c.v, v % (1 << w)),
                "value property (signed reading when sf)": Eq(c.value, Ite(v < 0, R.sgn(v % (1 << w), w), v % (1 << w))) if w > 0 else True}
        return post
    return Obligation("K/init/w=%d" % w, body, ["C01", "C12"],
                      ["amoco.cas.expressions:cst.__init__", "amoco.cas.expressions:cst.value"], mode="int", level="P")


@factory
def value(w, sf):
    sa = sfs(sf)

    def body(V):
        a = V.int("a", 0, (1 << w) - 1)
        c = mkc(a, w, sa)
        v = c.value
        e = c.eval(None)
        ref = R.sgn(a, w) if sa else a
        post = {"value": Eq(v, ref), "__int__/__index__ agree": Eq(c.__index__(), ref)}
        post.update(_res(e, w, a, [(c, a, w)]))
        return post
    return Obligation("K/value/w=%d/sf=%s" % (w, sf), body, ["C01", "C12", "C13"],
                      ["amoco.cas.expressions:cst.value", "amoco.cas.expressions:cst.eval"], mode="int", level="P")


@factory
def getitem(w, sf, lo, hi):
    sa = sfs(sf)

    def body(V):
        a = V.int("a", 0, (1 << w) - 1)
        c = mkc(a, w, sa)
        r = c[lo:hi]
        return _res(r, hi - lo, R.slc(a, lo, hi - lo, w), [(c, a, w)])
    return Obligation("K/getitem/w=%d/sf=%s/%d:%d" % (w, sf, lo, hi), body, ["C01", "C12", "C13"],
                      ["amoco.cas.expressions:cst.__getitem__"], mode="int", level="P")


@factory
def extend(kind, w, sf, w2):
    sa = sfs(sf)

    def body(V):
        a = V.int("a", 0, (1 << w) - 1)
        c = mkc(a, w, sa)
        r = c.zeroextend(w2) if kind == "zx" else c.signextend(w2)
        ref = a if kind == "zx" else R.sx(a, w, w2)
        post = _res(r, w2, ref, [(c, a, w)])
        post["C13 sign flag restored"] = (c.sf == sa)
        return post
    return Obligation("K/%s/w=%d/sf=%s/to=%d" % (kind, w, sf, w2), body, ["C01", "C12", "C13"],
                      ["amoco.cas.expressions:cst.%s" % ("zeroextend" if kind == "zx" else "signextend")],
                      mode="int", level="P")


@factory
def to_bytes(w, endian):
    "w multiple of 8: the bytes of the constant, least significant first when endian=1"
    def body(V):
        a = V.int("a", 0, (1 << w) - 1)
        c = mkc(a, w, False)
        bs = c.to_bytes(endian)
        n = w // 8
        exp = [(a >> (8 * k)) % 256 for k in range(n)]
        if endian == -1:
            exp.reverse()
        return {"length": len(bs) == n, "bytes": Eq(list(bs), exp)}
    return Obligation("K/to_bytes/w=%d/endian=%d" % (w, endian), body, ["C01", "C08"],
                      ["amoco.cas.expressions:cst.to_bytes"], mode="bv", W=w + 8, level="P")


# --- vacuity canaries: deliberately false contracts that must be refuted (and replay)

@factory
def canary(name, w):
    def body(V):
        a = V.int("a", 0, (1 << w) - 1)
        b = V.int("b", 0, (1 << w) - 1)
        ca, cb = mkc(a, w, False), mkc(b, w, False)
        if name == "add-is-sub":
            r = ca + cb
            return {"canary": Eq(r.v, R.sub(a, b, w))}
        if name == "lt-is-le":
            r = ca < cb
            return {"canary": Eq(r.v, R.le(a, b, w, False))}
        r = ca ^ cb
        return {"canary": Eq(r.v, R.bor(a, b, w))}
    mode = "bv" if name == "xor-is-or" else "int"
    return Obligation("K/canary/%s/w=%d" % (name, w), body, ["C01", "C12", "C13"], [],
                      mode=mode, W=2 * w + 8, level="P", expect="refuted")


def _slices(w, tier, rng):
    pairs = set()
    cand = sorted(set(x for x in (0, 1, 2, w // 2, w - 2, w - 1, w) if 0 <= x <= w))
    for i in cand:
        for j in cand:
            if i < j:
                pairs.add((i, j))
    if tier == "thorough" and w <= 16:
        pairs = set((i, j) for i in range(w) for j in range(i + 1, w + 1))
    return sorted(pairs)


def obligations(prop, tier, seed):
    import random
    rng = random.Random(seed)
    widths = ALL_WIDTHS if tier == "thorough" else QUICK_WIDTHS
    obs = []
    for w in widths:
        for name, (ref, mode, pol, nz, rw) in BINOPS.items():
            combos = ("FF", "TT") if pol == "same" else ("FF", "FT", "TF", "TT")
            for sf in combos:
                obs.append(binop(name=name, w=w, sf=sf))
        for name in SHIFTS:
            for sf in ("F", "T"):
                for amount in ("cst", "int"):
                    o = shift(name=name, w=w, sf=sf, amount=amount)
                    o.weight = 1 + w // 4
                    obs.append(o)
        for name in ("ror", "rol"):
            for sf in ("F", "T"):
                for amount in ("cst", "int"):
                    if amount == "cst" and (1 << w) <= w:   # width 1: amount 0 only
                        pass
                    o = rotate(name=name, w=w, sf=sf, amount=amount)
                    o.weight = 1 + w // 8
                    obs.append(o)
        for name in ("inv", "neg", "pos"):
            for sf in ("F", "T"):
                obs.append(unop(name=name, w=w, sf=sf))
        obs.append(init(w=w))
        for sf in ("F", "T"):
            obs.append(value(w=w, sf=sf))
            for (i, j) in _slices(w, tier, rng):
                obs.append(getitem(w=w, sf=sf, lo=i, hi=j))
            for w2 in sorted(set((w, w + 1, 2 * w, w + 8, 128))):
                if w2 >= w:
                    obs.append(extend(kind="zx", w=w, sf=sf, w2=w2))
                    obs.append(extend(kind="sx", w=w, sf=sf, w2=w2))
        if w % 8 == 0:
            for e in (1, -1):
                obs.append(to_bytes(w=w, endian=e))
    for nm in ("add-is-sub", "lt-is-le", "xor-is-or"):
        obs.append(canary(name=nm, w=8))
    return [o for o in obs if prop in o.props]
