"""Registry: property id -> contract modules serving it + evidence metadata."""

REGISTRY = {
    "C01": {
        "modules": ["contracts.cas_kernel", "contracts.cas_trees"],
        "category": "other",
        "explanation": "contract-based verification of the real code (symx): proof-level obligations for the constant kernel at every width, bounded symbolic verification for expression trees",
        "trusted_base": ["z3 5.1 (in-process)", "cvc5 1.0.3 (fallback)", "CPython 3.12 data-model dispatch", "specs/refsem.py (reference bit-vector semantics)"],
        "assumptions": [],
    },
}
