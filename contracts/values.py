"""C13, map part: expressions read from a map keep their width and denotation whatever is
written into the map afterwards; pickled-and-restored objects print, measure and evaluate the same.

map_history (bounded symbolic): a 32-bit register R with sub-registers lo8 = R[0:8],
hi8 = R[8:16], mid = R[0:16].  Every sequence of <= 4 (thorough 5) operations from
{write lo8 / hi8 / mid / whole, read whole / lo8 / hi8 / mid} is executed on one mapper with the
real __setitem__/__getitem__; written values are fresh registers (all valuations symbolic).
Postcondition: every value READ equals the bit-vector history at the time of the read, and
STILL denotes that value after all later operations (the handles are kept and re-interpreted
by the independent walker at the end), widths unchanged.

pickle (run-time contract, concrete): for expressions built from the tree recipes, mappers and
memory maps, pickle.loads(pickle.dumps(x)) has the same text, size and denotation under seeded
valuations.
"""
import itertools
import pickle
import random

import amoco.cas.expressions as E
from amoco.cas.mapper import mapper

from symx.oblig import Obligation, factory
from symx.logic import And, Or, Not, Ite, Eq, Implies
from specs.den import den, check_widths, NoClaim, Malformed
from contracts.formats import _RtGeneric
from contracts import cas_trees as T

SLICES = {"lo8": (0, 8), "hi8": (8, 16), "mid": (0, 16), "all": (0, 32)}


@factory
def map_history(ops):
    ops = [tuple(o) for o in ops]

    def body(V):
        R = E.reg("R", 32)
        rho = {"R": V.int("R", 0, (1 << 32) - 1)}
        cur = rho["R"]          # the bit-vector history of R
        m = mapper()
        handles = []
        post = {}
        for k, (kind, which) in enumerate(ops):
            lo, hi = SLICES[which]
            loc = R if which == "all" else R[lo:hi]
            if kind == "w":
                b = E.reg("b%d" % k, hi - lo)
                rho["b%d" % k] = V.int("b%d" % k, 0, (1 << (hi - lo)) - 1)
                m[loc] = b
                mask = ((1 << (hi - lo)) - 1) << lo
                cur = (cur & (0xFFFFFFFF ^ mask)) | (rho["b%d" % k] << lo)
            else:
                # sub-registers are read by evaluation (m[...] only looks whole registers up)
                v = m[loc] if which == "all" else m(loc)
                handles.append((k, which, v, (cur >> lo) % (1 << (hi - lo)), hi - lo))
        for (k, which, v, expected, width) in handles:
            tag = "value read at step %d (%s)" % (k, which)
            post["C13 %s keeps its width" % tag] = (v.size == width)
            try:
                check_widths(v)
                side = []
                d = den(v, rho, None, side)
            except NoClaim:
                continue
            except (Malformed, KeyError) as ex:
                post["C13 %s is still well formed (%s)" % (tag, ex)] = False
                continue
            post["C13 %s still denotes what the map held when it was read" % tag] = Implies(And(side), Eq(d, expected))
            # slicing the handle afterwards must not raise either
            try:
                if width > 8:
                    v[0:8]
                    v[8:width]
                post["C13 %s can still be sliced" % tag] = True
            except Exception as ex:
                post["C13 %s can still be sliced (%s: %s)" % (tag, type(ex).__name__, ex)] = False
        post["C13 history executed"] = True
        return post
    name = ",".join("%s:%s" % o for o in ops)
    return Obligation("V/map-history/%s" % name, body, ["C13"],
                      ["amoco.cas.mapper:mapper.__setitem__", "amoco.cas.mapper:mapper.__getitem__", "amoco.cas.mapper:mapper.R", "amoco.cas.expressions:comp.__setitem__",
                       "amoco.cas.expressions:comp.__getitem__", "amoco.cas.expressions:comp.copy", "amoco.cas.expressions:comp.cut", "amoco.cas.expressions:slc.__init__"],
                      mode="bv", W=80, level="Bsym", bound="histories of <= 4 (thorough 5) register writes/reads over four overlapping sub-registers; all values symbolic",
                      samples=6, maxpaths=500)


def struct_fp(e, depth=0):
    "structural fingerprint of an expression: class, size, sign flag and the same of every sub-expression (what printing does not show)"
    if not isinstance(e, E.exp) or depth > 12:
        return repr(e)
    kids = []
    if e._is_cst:
        kids.append(int(e.v))
    elif e._is_slc:
        kids += [struct_fp(e.x, depth + 1), e.pos]
    elif e._is_cmp:
        kids += [(k, struct_fp(v, depth + 1)) for k, v in sorted(e.parts.items())]
    elif e._is_eqn:
        kids.append(getattr(e.op, "symbol", None))
        if getattr(e, "l", None) is not None:
            kids.append(struct_fp(e.l, depth + 1))
        kids.append(struct_fp(e.r, depth + 1))
        kids.append(getattr(e, "prop", None))
    elif e._is_tst:
        kids += [struct_fp(e.tst, depth + 1), struct_fp(e.l, depth + 1), struct_fp(e.r, depth + 1)]
    elif e._is_mem:
        kids += [struct_fp(e.a, depth + 1), e.endian, [(struct_fp(l, depth + 1), struct_fp(v, depth + 1)) for l, v in e.mods]]
    elif e._is_ptr:
        kids += [struct_fp(e.base, depth + 1), e.disp, str(e.seg)]
    elif e._is_vec:
        kids += [struct_fp(x, depth + 1) for x in e.l]
    elif e._is_reg or e._is_ext:
        kids += [e.ref, getattr(e, "etype", None)]
    return (type(e).__name__, e.size, bool(e.sf), kids)


def _pickle_rt(tier, seed, only=None):
    rng = random.Random("pickle/%s" % seed)
    fails = []
    samples = []
    distinct = set()
    n = 0
    widths = (8, 32) if tier == "quick" else (1, 8, 13, 32, 64)

    class V0(object):
        symbolic = False

        def int(self, name, lo, hi):
            return rng.randint(lo, hi)

        def assume(self, c):
            pass
    for w, world in [(w, world) for w in widths for world in ("U", "S", "M")]:
        pool = T.depth1(w, world) + T.depth2(w, world)
        for rc in rng.sample(pool, min(len(pool), (150 if world == "U" else 60) if tier == "quick" else 3000)):
            if only is not None and (T.show(rc) != only.get("recipe") or only.get("world", "U") != world):
                continue
            env = T.Env(w, world, V0())
            try:
                e = T.build(rc, env, [])
            except Exception:
                continue
            if not isinstance(e, E.exp):
                continue
            n += 1
            distinct.add(type(e).__name__ + T.show(rc)[:12])
            inp = {"recipe": T.show(rc), "w": w, "world": world}
            try:
                e2 = pickle.loads(pickle.dumps(e))
            except Exception as ex:
                fails.append((dict(inp, sig="pickle:raise:%s" % type(ex).__name__), "pickle of %s raised %s: %s" % (e, type(ex).__name__, ex)))
                continue
            bad = None
            if str(e2) != str(e):
                bad = "prints %s, original %s" % (e2, e)
            elif e2.size != e.size:
                bad = "size %d, original %d" % (e2.size, e.size)
            elif struct_fp(e2) != struct_fp(e):
                bad = "structure (class, size, sign flag of a sub-expression) %s, original %s" % (struct_fp(e2), struct_fp(e))
            else:
                for _ in range(4):
                    rho = {k: rng.randint(0, (1 << r.size) - 1) for k, r in env.regs.items()}
                    try:
                        if den(e2, rho) != den(e, rho):
                            bad = "denotes another value under %s" % rho
                            break
                    except (NoClaim, Malformed):
                        break
            if bad:
                fails.append((dict(inp, sig="pickle:differs:%s" % type(e).__name__), "restored %s: %s" % (T.show(rc), bad)))
            if len(samples) < 3:
                samples.append(inp)
            # the same expression stored in a mapper, and in a memory map
            m = mapper()
            m[E.reg("x", e.size)] = e
            m[E.mem(E.reg("p", 32), e.size if e.size % 8 == 0 else 32)] = e if e.size % 8 == 0 else E.cst(1, 32)
            try:
                m2 = pickle.loads(pickle.dumps(m))
                if str(m2) != str(m):
                    fails.append((dict(inp, sig="pickle:mapper-differs"), "restored mapper prints differently for %s" % T.show(rc)))
                mm2 = pickle.loads(pickle.dumps(m.mmap))
                if str(mm2) != str(m.mmap):
                    fails.append((dict(inp, sig="pickle:memorymap-differs"), "restored memory map prints differently for %s" % T.show(rc)))
            except Exception as ex:
                fails.append((dict(inp, sig="pickle:mapper-raise:%s" % type(ex).__name__), "pickle of a mapper holding %s raised %s" % (T.show(rc), ex)))
            n += 1
    return n, fails, samples, len(distinct)


def pickle_rt(tier):
    return _RtGeneric("V/pickle/expressions-mappers-memory", ["C13"], ["amoco.cas.expressions:exp.dumps/loads (pickle protocol of every node class)", "amoco.cas.mapper:mapper", "amoco.system.memory:MemoryMap"],
                      _pickle_rt, ("contracts.values:pickle_rt", {"tier": tier}),
                      "expressions built from the depth<=2 tree recipes at several widths, each also stored in a mapper and its memory map; distinct = different (node class, recipe prefix)", tier)


OPS = [("w", "lo8"), ("w", "hi8"), ("w", "mid"), ("w", "all"), ("r", "all"), ("r", "lo8"), ("r", "hi8"), ("r", "mid")]


def obligations(prop, tier, seed):
    obs = []
    maxlen = 4 if tier == "quick" else 5
    for L in range(2, maxlen + 1):
        for ops in itertools.product(OPS, repeat=L):
            if not any(k == "r" for k, _ in ops) or not any(k == "w" for k, _ in ops):
                continue
            # a read must be followed by at least one write to be interesting, or be last
            obs.append(map_history(ops=[list(o) for o in ops]))
    if tier == "quick":
        rng = random.Random("values/%s" % seed)
        core = [o for o in obs if len(o.params["ops"]) <= 3]
        rest = [o for o in obs if len(o.params["ops"]) > 3]
        obs = core + rng.sample(rest, min(len(rest), 600))
    obs.append(pickle_rt(tier))
    return obs
