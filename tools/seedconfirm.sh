#!/bin/sh
# usage: seedconfirm.sh <PROP> <N> [batch]  -- confirms a seeded change in its scratch worktree (tests pass, demo fails with it, passes without)
# batch "" -> /tmp/wt-<P>, /tmp/seed-<P>/<N>; batch 3 -> /tmp/wt3-<P>, /tmp/seed3-<P>/<N>
P=$1; N=$2; B=$3; WT=/tmp/wt$B-$P; SD=/tmp/seed$B-$P/$N
cd $WT && git checkout -q -- . && git apply $SD/patch.diff || { echo "APPLY-FAILED"; exit 1; }
T=$(PYTHONPATH=$WT /venv/bin/python -m pytest -q -p no:cacheprovider 2>&1 | grep -E "passed|failed" | tail -1)
PYTHONPATH=$WT timeout 600 /venv/bin/python $SD/demo.py >/dev/null 2>&1; D1=$?
git checkout -q -- .
PYTHONPATH=$WT timeout 600 /venv/bin/python $SD/demo.py >/dev/null 2>&1; D0=$?
echo "$P/$N tests: $T | demo with change exit=$D1 | demo without exit=$D0"
