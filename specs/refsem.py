"""Reference fixed-width bit-vector semantics ("ordinary fixed-width integer arithmetic").

Written from the property statements and SMT-LIB's theory of fixed-size bit-vectors, NOT
from amoco's code.  A bit-vector of width w is represented by its unsigned value in
[0, 2^w).  Every function is polymorphic: plain Python ints (replay / cross-check) or
symbolic proxies (verification); no function branches on a symbolic value.
"""
from symx.logic import And, Or, Not, Ite, Eq, sgn, b2i


def M(w):
    return 1 << w


def wrap(x, w):
    return x % (1 << w)


def add(a, b, w): return wrap(a + b, w)
def sub(a, b, w): return wrap(a - b, w)
def mul(a, b, w): return wrap(a * b, w)
def neg(a, w): return wrap(-a, w)
def inv(a, w): return (1 << w) - 1 - a
def band(a, b, w): return a & b
def bor(a, b, w): return a | b
def bxor(a, b, w): return a ^ b


def mul2(a, b, w, signed):
    "widening multiply: result has 2w bits"
    if signed:
        return wrap(sgn(a, w) * sgn(b, w), 2 * w)
    return a * b


def _absdiv(a, b):
    "floor division of non-negative a by positive b"
    return a // b


def div(a, b, w, signed):
    "bvudiv / bvsdiv (truncation toward zero); precondition b != 0"
    if not signed:
        return a // b
    sa, sb = sgn(a, w), sgn(b, w)
    q = abs(sa) // abs(sb)
    q = Ite((sa < 0) != (sb < 0), -q, q)
    return wrap(q, w)


def rem(a, b, w, signed):
    "bvurem / bvsrem (sign of the dividend); precondition b != 0"
    if not signed:
        return a % b
    sa, sb = sgn(a, w), sgn(b, w)
    r = abs(sa) % abs(sb)
    r = Ite(sa < 0, -r, r)
    return wrap(r, w)


def _sym_any(*xs):
    from symx.core import SInt, SBool
    return any(isinstance(x, (SInt, SBool)) for x in xs)


def lsl(a, n, w):
    "shift left by any amount n >= 0 (n concrete or symbolic, unsigned)"
    return Ite(n >= w, 0, wrap(a << _clamp(n, w), w))


def lsr(a, n, w):
    return Ite(n >= w, 0, a >> _clamp(n, w))


def asr(a, n, w):
    s = sgn(a, w)
    return wrap(s >> _clamp(n, w), w)


def _clamp(n, w):
    # keep the shift amount small so that the engine's interval stays bounded
    return Ite(n >= w, w, n)


def ror(a, n, w):
    "rotate right, precondition 0 <= n < w"
    return wrap((a >> n) | (a << (w - n)), w)


def rol(a, n, w):
    return wrap((a << n) | (a >> (w - n)), w)


def eq(a, b, w): return b2i(a == b)
def ne(a, b, w): return b2i(a != b)
def ltu(a, b, w): return b2i(a < b)
def geu(a, b, w): return b2i(a >= b)


def _rd(a, w, signed):
    return sgn(a, w) if signed else a


def lt(a, b, w, signed): return b2i(_rd(a, w, signed) < _rd(b, w, signed))
def le(a, b, w, signed): return b2i(_rd(a, w, signed) <= _rd(b, w, signed))
def gt(a, b, w, signed): return b2i(_rd(a, w, signed) > _rd(b, w, signed))
def ge(a, b, w, signed): return b2i(_rd(a, w, signed) >= _rd(b, w, signed))


def slc(a, pos, size, w):
    "bits [pos, pos+size) of a"
    return (a >> pos) % (1 << size)


def zx(a, w, w2): return a
def sx(a, w, w2): return wrap(sgn(a, w), w2)


def concat(parts):
    "parts: list of (value, width), least significant first"
    r = 0
    pos = 0
    for v, w in parts:
        r = r + (v << pos)
        pos += w
    return r


def tst(c, a, b):
    return Ite(c == 1, a, b)
