"""Contracts on amoco.arch.core: ispec.buildspec / ispec.decode (C03), instruction bytes and
independence from trailing bytes (C05), on symbolic instruction bytes.

For every shipped specification s (found by importing every cpu module) and fetch endianness:

  buildspec : s.mask, s.fix, s.size, s.pfx and the set of extracted symbols equal
              fmtsem(s.format) -- the independent interpreter of the documented grammar.
  decode    : for ALL byte strings b of length blen+t (t in {0,1,5}; fully symbolic):
              raises DecodeError      <=>  not fixed_bits_match(b)          (and len(b) >= blen)
              otherwise the hook receives, for every symbol, exactly the bits fmtsem assigns
              to it, in the documented form; instruction.bytes == b[:blen].
              decode(b[:blen-1]) raises DecodeError (too short).
  C05       : the delivered arguments, attributes and bytes are functions of b[:blen] only for
              fixed-length specifications: the same contract with t trailing bytes shows no
              argument depends on them (they are compared against terms over b[:blen]).
"""
import importlib
import os
import pkgutil
import re
import sys
import types

import amoco.arch
import amoco.arch.core as AC
from crysp.bits import Bits

from symx.oblig import Obligation, factory
from symx.logic import And, Or, Not, Ite, Eq, Implies, is_sym
from symx.core import SInt, SymBytes, OutOfReach
from specs.fmtsem import fmtsem, FormatError, ia32_macro

_CPUS = None
IMPORT_FAILURES = []


def cpus():
    "every importable cpu module: list of (module name, attribute name, disassembler)"
    global _CPUS
    if _CPUS is not None:
        return _CPUS
    out = []
    names = []
    for m in pkgutil.walk_packages(amoco.arch.__path__, "amoco.arch."):
        if m.name.split(".")[-1].startswith("cpu"):
            names.append(m.name)
    for mn in sorted(names):
        try:
            m = importlib.import_module(mn)
        except Exception as e:
            IMPORT_FAILURES.append("%s: %s: %s" % (mn, type(e).__name__, str(e)[:100]))
            continue
        for k, v in sorted(vars(m).items()):
            if isinstance(v, AC.disassembler):
                out.append((mn, k, v))
    _CPUS = out
    return out


def flat(fl):
    f, l = fl
    if f == 0:
        return list(l)
    r = []
    for x in l.values():
        r.extend(flat(x))
    return r


def all_specs():
    "[(cpu module, mode index, position, spec)] without duplicates"
    out = []
    for mn, k, d in cpus():
        for mode, tree in enumerate(d.specs):
            for n, s in enumerate(flat(tree)):
                out.append((mn, mode, n, s))
    return out


def spec_by_ref(mn, mode, n):
    for m2, k, d in cpus():
        if m2 == mn:
            return flat(d.specs[mode])[n], d
    raise KeyError(mn)


class Recorder(object):
    def __init__(self):
        self.kargs = None
        self.obj = None

    def __call__(self, obj, **kargs):
        self.obj = obj
        self.kargs = kargs


def word_of(bs, blen, endian):
    "the instruction word: first blen bytes, little endian (endian=1) or big endian (-1)"
    w = 0
    order = range(blen) if endian == 1 else range(blen - 1, -1, -1)
    for pos, k in enumerate(order):
        w = w + (bs[k] << (8 * pos))
    return w


def tail_of(bs, blen):
    "trailing bytes as a little-endian integer placed above the fixed part"
    w = 0
    for pos in range(len(bs) - blen):
        w = w + (bs[blen + pos] << (8 * pos))
    return w


def _bits(x, sta, sto):
    return (x >> sta) % (1 << (sto - sta))


def _check_field(name, fld, got, word, tailv, nbits, total, post, direction):
    if fld.sto is None:
        # variable tail: every bit from sta up, including the trailing bytes
        full = word + (tailv << nbits)
        exp = full >> fld.sta
        size = total - fld.sta
    else:
        exp = _bits(word, fld.sta, fld.sto)
        size = fld.sto - fld.sta
    if fld.kind == "int":
        post["C03 field %s (integer)" % name] = Eq(got, exp)
    elif fld.kind == "bits":
        ok = isinstance(got, Bits)
        post["C03 field %s is a Bits" % name] = ok
        if ok:
            post["C03 field %s (bit-vector) size" % name] = (got.size == size)
            post["C03 field %s (bit-vector) value" % name] = Eq(got.ival % (1 << size) if size else 0, exp)
    else:
        ok = isinstance(got, str) and len(got) == size and set(got) <= set("01")
        post["C03 field %s is a 0/1 string" % name] = ok
        if ok:
            # written order: MSB first for '<', LSB first for '>'
            v = 0
            chars = got if direction == ">" else got[::-1]
            for k, ch in enumerate(chars):
                v |= int(ch) << k
            post["C03 field %s (bit string)" % name] = Eq(v, exp)


def strmask(f):
    "bits of the word that feed '#' (bit string) fields"
    m = 0
    for fl in f.fields.values():
        if fl.kind == "str" and fl.sto is not None:
            m |= ((1 << (fl.sto - fl.sta)) - 1) << fl.sta
    return m


@factory
def decode(cpu, mode, n, endian, tail, pin=None):
    """pin: value of the bits feeding '#' fields when they are too many to enumerate (the real
    Bits.__str__ needs a concrete integer, i.e. one path per value): bounded obligation"""
    s, d = spec_by_ref(cpu, mode, n)
    f = fmtsem(s.format)
    blen = f.nbits // 8
    total_bits = 8 * (blen + tail)
    smask = strmask(f)

    def body(V):
        bs = V.bytes("b", blen + tail)
        if pin is not None:
            V.assume(Eq(word_of(bs, blen, endian) & smask, pin & smask))
        rec = Recorder()
        old_hook, old_pre = s.hook, s.precond
        s.hook = rec
        s.precond = None
        try:
            try:
                i = s.decode(bs, endian, iclass=d.iclass)
                accepted = True
            except AC.DecodeError:
                accepted = False
        finally:
            s.hook, s.precond = old_hook, old_pre
        word = word_of(bs, blen, endian)
        match = Eq(word & f.mask, f.fix) if f.mask else True
        post = {}
        if not accepted:
            post["C03 rejected only when the fixed bits differ"] = Not(match)
            return post
        post["C03 accepted only when the fixed bits match"] = match
        post["C05 instruction bytes are the first %d bytes" % blen] = Eq(i.bytes, bs[0:blen])
        post["C05 length"] = (len(i.bytes) == blen)
        tailv = tail_of(bs, blen) if f.size == 0 else 0
        delivered = dict(rec.kargs or {})
        for name, fld in f.fields.items():
            if fld.attr:
                if not hasattr(i, name):
                    post["C03 attribute %s delivered" % name] = False
                    continue
                got = getattr(i, name)
            else:
                if name not in delivered:
                    post["C03 argument %s delivered" % name] = False
                    continue
                got = delivered[name]
            _check_field(name, fld, got, word, tailv, f.nbits, total_bits if f.size == 0 else f.nbits, post, f.direction)
        extra = [k for k in delivered if k not in f.fields and not (k in s.fargs and not isinstance(s.fargs[k], types.FunctionType))]
        post["C03 no argument outside the format"] = (extra == [])
        return post
    props = ["C03", "C05"]
    return Obligation("D/decode/%s/m%d/%04d/e=%d/t=%d%s %s" % (".".join(cpu.split(".")[2:]), mode, n, endian, tail,
                                                               "" if pin is None else "/pin=%x" % (pin & smask), s.format.strip()[:60]),
                      body, props, ["amoco.arch.core:ispec.decode", "amoco.arch.core:ispec.buildspec (extractors)", "crysp.bits:Bits.load", "crysp.bits:Bits.__getitem__"],
                      mode="bv", W=total_bits + 16, level="P" if pin is None else "Bsym",
                      bound=None if pin is None else "bit-string ('#') fields wider than 6 bits in total: their bits are pinned to 6 patterns (all-0, all-1, 4 seeded), every other bit symbolic",
                      samples=4, maxpaths=6000, index_limit=300, vc_timeout_ms=20000, budget_s=120)


@factory
def tooshort(cpu, mode, n, endian):
    s, d = spec_by_ref(cpu, mode, n)
    f = fmtsem(s.format)
    blen = f.nbits // 8

    def body(V):
        post = {}
        for l in range(0, blen):
            bs = V.bytes("b%d" % l, l)
            try:
                s.decode(bs, endian, iclass=d.iclass)
                post["C03 %d bytes (< %d) rejected" % (l, blen)] = False
            except AC.DecodeError:
                post["C03 %d bytes (< %d) rejected" % (l, blen)] = True
        post["C03 length rule"] = True
        return post
    return Obligation("D/tooshort/%s/m%d/%04d/e=%d" % (".".join(cpu.split(".")[2:]), mode, n, endian), body, ["C03", "C05"],
                      ["amoco.arch.core:ispec.decode"], mode="bv", W=8 * blen + 16, level="P", samples=1)


class _Concrete(object):
    "finite exhaustive check presented as one obligation (kind 'rt'): no symbolic input"
    kind = "rt"
    level = "P"
    expect = "proved"
    bound = None
    samples = 0
    optional = False

    def __init__(self, oid, props, fuc, fn, factory_ref):
        self.id = oid
        self.props = props
        self.fuc = fuc
        self.fn = fn
        self.factory, self.params = factory_ref

    def ref(self):
        return {"factory": self.factory, "params": self.params, "id": self.id, "tag": getattr(self, "tag", None)}

    def run_rt(self, seed):
        import time
        t0 = time.time()
        n, fails, samples = self.fn()
        return {"id": self.id, "props": self.props, "level": self.level, "fuc": self.fuc, "kind": "rt",
                "verdict": "proved" if not fails else "refuted", "evaluations": n, "distinct_nontrivial": n,
                "failures": [{"inputs": f[0], "detail": f[1], "confirmed": True} for f in fails[:20]],
                "samples": samples, "rule": "every shipped specification once (finite, exhaustive)",
                "paths": n, "vcs": n, "discharged": n - len(fails), "solver_s": 0, "backend": {"concrete-exhaustive": n},
                "ref": self.ref(), "expect": "proved", "bound": None, "wall_s": round(time.time() - t0, 2)}

    def replay_rt(self, inputs):
        n, fails, samples = self.fn(only=inputs)
        if fails:
            return "fail", fails[0][1]
        return "ok", ""


def _buildspec_check(only=None):
    n = 0
    fails = []
    samples = []
    for (mn, mode, k, s) in all_specs():
        key = {"cpu": mn, "mode": mode, "n": k}
        if only is not None and only != key:
            continue
        n += 1
        try:
            f = fmtsem(s.format)
        except FormatError as e:
            fails.append((key, "format not in the documented grammar: %s (%s)" % (s.format, e)))
            continue
        bad = []
        if s.mask.ival != f.mask:
            bad.append("mask %x != %x" % (s.mask.ival, f.mask))
        if s.fix.ival != f.fix:
            bad.append("fix %x != %x" % (s.fix.ival, f.fix))
        if s.fix.size != f.nbits or s.mask.size != f.nbits:
            bad.append("bit length %d != %d" % (s.fix.size, f.nbits))
        if s.size != f.size:
            bad.append("size %r != %r" % (s.size, f.size))
        if s.pfx != f.pfx:
            bad.append("pfx %r != %r" % (s.pfx, f.pfx))
        names_args = set(k2 for k2, v in s.fargs.items() if isinstance(v, types.FunctionType))
        names_attr = set(k2 for k2, v in s.iattr.items() if isinstance(v, types.FunctionType))
        exp_args = set(k2 for k2, fl in f.fields.items() if not fl.attr)
        exp_attr = set(k2 for k2, fl in f.fields.items() if fl.attr)
        if names_args != exp_args or names_attr != exp_attr:
            bad.append("symbols %s/%s != %s/%s" % (sorted(names_args), sorted(names_attr), sorted(exp_args), sorted(exp_attr)))
        if bad:
            fails.append((key, "%s: %s" % (s.format, "; ".join(bad))))
        if len(samples) < 5 and k % 97 == 0:
            samples.append({"cpu": mn, "format": s.format, "mask": "%x" % f.mask, "fix": "%x" % f.fix, "fields": {a: list(b) for a, b in f.fields.items()}})
    return n, fails, samples


def _ia32_macro_check(only=None):
    "ispec_ia32('/r', '/digit') expands as the Intel notation says"
    from amoco.arch.x86.utils import ispec_ia32 as I32
    from amoco.arch.x64.utils import ispec_ia32 as I64
    root = os.path.dirname(amoco.arch.__file__)
    fmts = set()
    for sub in ("x86", "x64"):
        for fn in os.listdir(os.path.join(root, sub)):
            if fn.startswith("spec") and fn.endswith(".py"):
                src = open(os.path.join(root, sub, fn)).read()
                for m in re.finditer(r'@ispec_ia32\(\s*"([^"]*)"', src):
                    fmts.add(m.group(1))
    n = 0
    fails = []
    samples = []
    for fmt in sorted(fmts):
        if "/" not in fmt:
            continue
        key = {"format": fmt}
        if only is not None and only != key:
            continue
        for cls in (I32, I64):
            n += 1
            s = cls(fmt)
            f = fmtsem(ia32_macro(fmt))
            if (s.mask.ival, s.fix.ival, s.fix.size, s.size) != (f.mask, f.fix, f.nbits, f.size) or set(f.fields) - set(s.fargs) - set(s.iattr):
                fails.append((key, "%s expands to %s: mask/fix %x/%x, expected %x/%x" % (fmt, s.format, s.mask.ival, s.fix.ival, f.mask, f.fix)))
        if len(samples) < 3:
            samples.append({"format": fmt, "expanded": ia32_macro(fmt)})
    return n, fails, samples


@factory
def buildspec_all():
    return _Concrete("D/buildspec/all-shipped-specifications", ["C03"],
                     ["amoco.arch.core:ispec.buildspec", "amoco.arch.core:specdecode (grammar)"], _buildspec_check,
                     ("contracts.decoder:buildspec_all", {}))


@factory
def ia32_macro_all():
    return _Concrete("D/ia32-macro/all-shipped-formats", ["C03"],
                     ["amoco.arch.x86.utils:ispec_ia32.__init__", "amoco.arch.x64.utils:ispec_ia32.__init__"], _ia32_macro_check,
                     ("contracts.decoder:ia32_macro_all", {}))


@factory
def canary_decode(cpu, mode, n):
    "vacuity canary: claim a field is read one bit too high -- must be refuted"
    s, d = spec_by_ref(cpu, mode, n)
    f = fmtsem(s.format)
    blen = f.nbits // 8
    name = sorted(k for k, fl in f.fields.items() if fl.kind == "int" and fl.sto is not None and fl.sto < f.nbits and not fl.attr)[0]
    fld = f.fields[name]

    def body(V):
        bs = V.bytes("b", blen)
        rec = Recorder()
        old_hook, old_pre = s.hook, s.precond
        s.hook = rec
        s.precond = None
        try:
            try:
                s.decode(bs, 1, iclass=d.iclass)
            except AC.DecodeError:
                return {"canary": True}
        finally:
            s.hook, s.precond = old_hook, old_pre
        word = word_of(bs, blen, 1)
        return {"canary": Eq(rec.kargs[name], _bits(word, fld.sta + 1, fld.sto + 1))}
    return Obligation("D/canary/%s/%04d" % (".".join(cpu.split(".")[2:]), n), body, ["C03", "C05"], [], mode="bv", W=8 * blen + 16,
                      level="P", expect="refuted", index_limit=300)


def obligations(prop, tier, seed):
    import random
    rng = random.Random("decoder/%s/%s" % (prop, seed))
    obs = []
    if prop == "C03":
        obs.append(buildspec_all())
        obs.append(ia32_macro_all())
    specs = all_specs()
    seen_fmt = set()
    for (mn, mode, n, s) in specs:
        try:
            f = fmtsem(s.format)
        except FormatError:
            continue
        native = 1
        for m2, k, d in cpus():
            if m2 == mn:
                try:
                    native = d.endian()
                except Exception:
                    native = 1
        key = (s.format, tuple(sorted(s.fargs)), native)
        dup = key in seen_fmt
        seen_fmt.add(key)
        variable = (f.size == 0)
        if tier == "quick":
            # every distinct format once at the ISA's own endianness with one trailing byte;
            # the other combinations on a seeded third
            combos = [(native, 1)]
            if not variable and rng.random() < 0.34:
                combos.append((-native, 0))
            if variable and rng.random() < 0.34:
                combos.append((1, 5))
            if variable and rng.random() < 0.12:
                combos.append((1, 19))      # a long tail: every trailing byte belongs to the (*) field
            if dup and rng.random() < 0.8:
                combos = []
        else:
            combos = [(1, 0), (1, 1), (1, 5), (1, 19)] if variable else [(1, 0), (1, 1), (-1, 0), (-1, 1), (native, 5)]
        sm = strmask(f)
        wide = bin(sm).count("1") > 6
        for (e, t) in combos:
            if variable and e != 1:
                continue
            pins = [None]
            if wide:
                pins = [0, sm] + [rng.getrandbits(f.nbits) & sm for _ in range(4 if tier == "thorough" else 2)]
            for pin in list(dict.fromkeys(pins)):
                o = decode(cpu=mn, mode=mode, n=n, endian=e, tail=t, pin=pin)
                o.weight = 1 + len(f.fields)
                obs.append(o)
        if not dup and (tier == "thorough" or rng.random() < 0.1):
            obs.append(tooshort(cpu=mn, mode=mode, n=n, endian=native if not variable else 1))
    # canaries
    for (mn, mode, n, s) in specs:
        if mn.endswith("cpu_rv32i") and "imm" in s.format and n < 40:
            try:
                obs.append(canary_decode(cpu=mn, mode=mode, n=n))
                break
            except Exception:
                continue
    return [o for o in obs if prop in o.props]
