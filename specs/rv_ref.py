"""Reference interpreter for the RISC-V base integer instruction sets RV32I / RV64I, written
from "The RISC-V Instruction Set Manual, Volume I: Unprivileged ISA" (chapters 2 and 5), not
from amoco's code.  Polymorphic: plain ints or symbolic proxies; no branching on values.

step(xlen, word_fields, regs, pc, load) -> (rd_index or None, rd_value, next_pc, store or None)
  regs : list of 32 unsigned XLEN-bit values (regs[0] is 0)
  load(addr, nbytes) -> unsigned little-endian value of nbytes at addr
  store: (addr, nbytes, value)
All register values are unsigned representations modulo 2^XLEN.
"""
from symx.logic import And, Or, Not, Ite, Eq, sgn


def sx(v, bits, xlen):
    "sign-extend the `bits`-bit value v to xlen bits (unsigned representation)"
    return sgn(v, bits) % (1 << xlen)


def wrap(v, xlen):
    return v % (1 << xlen)


def imm_i(word):
    return (word >> 20) % (1 << 12)


def imm_s(word):
    return ((word >> 7) % 32) + (((word >> 25) % 128) << 5)


def imm_b(word):
    return ((((word >> 8) % 16) << 1) + (((word >> 25) % 64) << 5) + (((word >> 7) % 2) << 11) + (((word >> 31) % 2) << 12))


def imm_u(word):
    return (word >> 12) % (1 << 20)


def imm_j(word):
    return ((((word >> 21) % 1024) << 1) + (((word >> 20) % 2) << 11) + (((word >> 12) % 256) << 12) + (((word >> 31) % 2) << 20))


def step(xlen, mnemonic, rd, rs1, rs2, word, regs, pc, load):
    X = xlen
    M = 1 << X
    a = regs[rs1] if rs1 is not None else 0
    b = regs[rs2] if rs2 is not None else 0
    npc = wrap(pc + 4, X)
    val = None
    store = None
    shmask = X - 1
    m = mnemonic
    if m == "ADD": val = wrap(a + b, X)
    elif m == "SUB": val = wrap(a - b, X)
    elif m == "AND": val = a & b
    elif m == "OR": val = a | b
    elif m == "XOR": val = a ^ b
    elif m == "SLT": val = Ite(sgn(a, X) < sgn(b, X), 1, 0)
    elif m == "SLTU": val = Ite(a < b, 1, 0)
    elif m == "SLL": val = wrap(a << (b & shmask), X)
    elif m == "SRL": val = a >> (b & shmask)
    elif m == "SRA": val = wrap(sgn(a, X) >> (b & shmask), X)
    elif m in ("ADDI", "ANDI", "ORI", "XORI", "SLTI", "SLTIU"):
        i = sx(imm_i(word), 12, X)
        if m == "ADDI": val = wrap(a + i, X)
        elif m == "ANDI": val = a & i
        elif m == "ORI": val = a | i
        elif m == "XORI": val = a ^ i
        elif m == "SLTI": val = Ite(sgn(a, X) < sgn(i, X), 1, 0)
        else: val = Ite(a < i, 1, 0)
    elif m in ("SLLI", "SRLI", "SRAI"):
        sh = (word >> 20) % (64 if X == 64 else 32)
        if m == "SLLI": val = wrap(a << sh, X)
        elif m == "SRLI": val = a >> sh
        else: val = wrap(sgn(a, X) >> sh, X)
    elif m == "LUI": val = sx(imm_u(word) << 12, 32, X)
    elif m == "AUIPC": val = wrap(pc + sx(imm_u(word) << 12, 32, X), X)
    elif m == "JAL":
        val = npc
        npc = wrap(pc + sx(imm_j(word), 21, X), X)
    elif m == "JALR":
        val = npc
        t = wrap(a + sx(imm_i(word), 12, X), X)
        npc = t - (t % 2)
    elif m in ("BEQ", "BNE", "BLT", "BGE", "BLTU", "BGEU"):
        tgt = wrap(pc + sx(imm_b(word), 13, X), X)
        if m == "BEQ": c = (a == b)
        elif m == "BNE": c = (a != b)
        elif m == "BLT": c = sgn(a, X) < sgn(b, X)
        elif m == "BGE": c = sgn(a, X) >= sgn(b, X)
        elif m == "BLTU": c = a < b
        else: c = a >= b
        npc = Ite(c, tgt, npc)
        rd = None
    elif m in ("LB", "LH", "LW", "LBU", "LHU", "LWU", "LD"):
        n = {"B": 1, "H": 2, "W": 4, "D": 8}[m[1]]
        addr = wrap(a + sx(imm_i(word), 12, X), X)
        v = load(addr, n)
        val = v if (m.endswith("U") or 8 * n == X) else sx(v, 8 * n, X)
    elif m in ("SB", "SH", "SW", "SD"):
        n = {"B": 1, "H": 2, "W": 4, "D": 8}[m[1]]
        addr = wrap(a + sx(imm_s(word), 12, X), X)
        store = (addr, n, b % (1 << (8 * n)))
        rd = None
    elif m in ("ADDW", "SUBW", "SLLW", "SRLW", "SRAW", "ADDIW", "SLLIW", "SRLIW", "SRAIW"):
        # RV64I word forms: operate on the low 32 bits, sign-extend the 32-bit result
        a32 = a % (1 << 32)
        if m in ("ADDW", "SUBW", "SLLW", "SRLW", "SRAW"):
            b32 = b % (1 << 32)
            sh = b & 31
        else:
            b32 = sx(imm_i(word), 12, 32)
            sh = (word >> 20) % 32
        if m in ("ADDW", "ADDIW"): r = wrap(a32 + b32, 32)
        elif m == "SUBW": r = wrap(a32 - b32, 32)
        elif m in ("SLLW", "SLLIW"): r = wrap(a32 << sh, 32)
        elif m in ("SRLW", "SRLIW"): r = a32 >> sh
        else: r = wrap(sgn(a32, 32) >> sh, 32)
        val = sx(r, 32, X)
    elif m in ("FENCE", "FENCE_I", "ECALL", "EBREAK"):
        rd = None
    else:
        raise KeyError(m)
    if rd == 0:
        rd = None
    return rd, val, npc, store
