"""Registry: property id -> contract modules serving it + evidence / manifest metadata."""

_TB = ["z3 5.1 (in-process, wheel)", "cvc5 1.0.3 CLI (second opinion on z3 'unknown')",
       "CPython 3.12 data-model dispatch (operators, truth tests, __index__, __format__ reach the proxies)",
       "symx engine (self-test: every proxy operator cross-checked against CPython on every run of ./vf selftest)"]

_AS_COMMON = [
    "amoco is verified as the test-suite runs it: without its optional z3 back end (amoco.cas.smt inactive)",
    "Python integers are mathematical (unbounded): int mode is exact; bv mode checks on every operation that the tracked interval fits the working width and gives up (undecided) otherwise",
    "amoco hashes/compares expressions by their text; str hashes are assumed collision free (amoco assumes the same)",
]

REGISTRY = {
    "C01": {
        "modules": ["contracts.cas_kernel", "contracts.cas_trees"],
        "category": "other",
        "technique": "contract-based deductive verification of the real code: symbolic execution of /repo's functions on z3-backed integer proxies, one VC per contract clause and path (z3, cvc5); proof-level for the constant kernel at all widths, bounded (tree depth) for rewrite rules",
        "level_text": "Constant kernel (every cst operator, ror/rol/ltu/geu, value, slicing, extensions): contracts discharged for ALL operand values at the widths of the tier (quick: 14 widths 1..128, thorough: every width 1..128) - proof level, reported separately. Rewrite/eval rules (oper, simplify, eqn helpers, comp, slc, tst, extend, mapper eval): bounded symbolic verification - all register valuations, recipes enumerated to depth 3 over 6 (quick) / 11 (thorough) widths. The check's level is that of its weakest deciding component (bounded), hence 'other'.",
        "level_note": "trusted: z3/cvc5, CPython dispatch, the symx engine and shims, specs/refsem.py and specs/den.py (reference semantics and independent walker). Not covered: trees deeper than 3; constants outside the boundary set; signed division above 9 bits is attempted with a non-linear encoding and only counted when decided; ordered comparisons / division / widening multiply only over operands whose signedness is declared by registers, constants and + - * (bitwise results are 'unsigned' by amoco's own convention).",
        "design_ref": "DESIGN.md sections 2, 4 (C01)",
        "explanation": "contract-based verification of the real code (symx): proof-level obligations for the constant kernel, bounded symbolic verification (all valuations, trees up to depth 3) for the rewrite and evaluation rules; see proof_level and bounded_symbolic",
        "trusted_base": _TB + ["specs/refsem.py (reference bit-vector semantics)", "specs/den.py (independent denotation walker)"],
        "assumptions": _AS_COMMON,
    },
    "C12": {
        "modules": ["contracts.cas_kernel", "contracts.cas_trees"],
        "category": "other",
        "technique": "contract-based deductive verification of the real code: width clause of every kernel/tree contract plus the comp tiling invariant, discharged on symbolic inputs (z3)",
        "level_text": "Same obligations as C01 restricted to the width clauses (result.size == width the construction dictates; every comp reachable in a result tiles [0,size) and smask names the covering part; slices in range), with independently seeded recipes. Kernel: all values, listed widths (proof level). Trees: bounded by depth 3.",
        "level_note": "as C01; widths are concrete on every path, so a width clause holds for all valuations of the path.",
        "design_ref": "DESIGN.md section 4 (C12/C13)",
        "explanation": "width clauses of the C01 contracts (kernel: proof level; trees: bounded symbolic), recipes seeded independently of C01",
        "trusted_base": _TB + ["specs/den.py check_widths / comp tiling checker"],
        "assumptions": _AS_COMMON,
    },
    "C13": {
        "modules": ["contracts.cas_kernel", "contracts.cas_trees"],
        "category": "other",
        "technique": "contract-based deductive verification of the real code: frame clause (every operand keeps width and denotation) of every kernel/tree contract, discharged on symbolic inputs (z3)",
        "level_text": "Frame clauses of the C01 contracts: every expression the API handed out while building (every operand) keeps its width and, for ALL valuations, its denotation (independent walker) after the parent was built, simplified (with/without bitslice/widening) or evaluated in a map. Kernel operands: (size, v) unchanged. Bounded by tree depth 3. Pickle round trip: not covered by this check yet.",
        "level_note": "as C01. The sign flag of a constant is not part of its value; re-flagging of shared registers is covered by C10.",
        "design_ref": "DESIGN.md section 4 (C12/C13)",
        "explanation": "frame clauses (operands unchanged: width and denotation for all valuations) of the C01 contracts; bounded symbolic verification",
        "trusted_base": _TB + ["specs/den.py"],
        "assumptions": _AS_COMMON,
    },
}

NOT_APPLICABLE = {
    "C07": "the oracle is the behaviour of two external programs (binutils, LLVM): no contract on amoco's functions can state it without hand-writing a model of those decoders; a vendored table comparison is example-based testing, a different family",
}
