"""Engine self-test: every SInt operator's z3 term, evaluated under a model that pins the
inputs, must equal CPython's result on the same plain ints (both modes, negatives, shifts,
floor division, bit operations), and the tracked interval must contain it.  Also: the shims
are the identity on concrete values; the path explorer enumerates exactly the feasible
outcomes of a small branching function."""
import operator
import random
import sys

import z3

from . import core, logic, shims
from .core import Ctx, SInt, SBool, OutOfReach, PathDone, explore

OPS = [
    ("add", operator.add), ("sub", operator.sub), ("mul", operator.mul),
    ("floordiv", operator.floordiv), ("mod", operator.mod),
    ("and", operator.and_), ("or", operator.or_), ("xor", operator.xor),
    ("lshift", operator.lshift), ("rshift", operator.rshift),
    ("lt", operator.lt), ("le", operator.le), ("eq", operator.eq), ("ne", operator.ne),
    ("ge", operator.ge), ("gt", operator.gt),
]
UNOPS = [("neg", operator.neg), ("inv", operator.invert), ("abs", abs), ("bool", bool),
         ("bit_length", lambda x: x.bit_length())]


def _term(r, ctx):
    if isinstance(r, SInt):
        return r.t
    if isinstance(r, SBool):
        return z3.If(r.t, ctx.val(1), ctx.val(0))
    if isinstance(r, bool):
        return ctx.val(int(r))
    return ctx.val(r)


def _eval(ctx, t, pins):
    s = z3.Solver()
    s.add(*ctx.pc)
    for v, val in pins:
        s.add(v == val)
    if s.check() != z3.sat:
        return None
    m = s.model().eval(t, model_completion=True)
    return m.as_long() if ctx.mode == "int" else m.as_signed_long()


def run(n=1500, seed=0):
    rng = random.Random(seed)
    bad = []
    done = 0
    for mode in ("int", "bv"):
        for k in range(n):
            W = rng.choice((24, 40, 72, 140))
            span = rng.choice((3, 8, 16, 33))
            lo1 = rng.choice((0, 0, -(1 << span), -5))
            hi1 = (1 << span) - 1
            lo2 = rng.choice((0, 0, -7, 1))
            hi2 = rng.choice((1, 7, 40, (1 << min(span, 10)) - 1))
            if hi2 < lo2:
                hi2 = lo2 + 3
            vx = rng.randint(lo1, hi1)
            vy = rng.randint(lo2, hi2)
            name, f = rng.choice(OPS + UNOPS)
            unary = (name, f) in UNOPS
            symy = rng.random() < 0.6
            ctx = Ctx(mode=mode, W=W)
            Ctx.cur = ctx
            try:
                try:
                    x = ctx.fresh("x", lo1, hi1)
                    y = ctx.fresh("y", lo2, hi2) if symy else vy
                except OutOfReach:
                    continue
                ctx.assume(x == vx if isinstance(x, SInt) else True)
                if symy and isinstance(y, SInt):
                    ctx.assume(y == vy)
                try:
                    exp = f(vx) if unary else f(vx, vy)
                    expexc = None
                except Exception as e:
                    exp, expexc = None, type(e)
                try:
                    r = f(x) if unary else f(x, y)
                    gotexc = None
                except (OutOfReach, PathDone):
                    continue
                except Exception as e:
                    r, gotexc = None, type(e)
                done += 1
                if expexc or gotexc:
                    if expexc is not gotexc:
                        bad.append((mode, name, vx, vy, "exception", expexc, gotexc))
                    continue
                t = _term(r, ctx)
                got = _eval(ctx, t, [])
                if got != int(exp):
                    bad.append((mode, name, vx, vy, "value", int(exp), got))
                if isinstance(r, SInt) and not (r.lo <= int(exp) <= r.hi):
                    bad.append((mode, name, vx, vy, "interval", int(exp), (r.lo, r.hi)))
            finally:
                Ctx.cur = None
    return done, bad


def shims_identity():
    bad = []
    if shims.sym_isinstance(3, int) is not True or shims.sym_isinstance(True, bool) is not True:
        bad.append("isinstance")
    if shims.sym_isinstance(b"x", (bytes, str)) is not True or shims.sym_isinstance("x", int):
        bad.append("isinstance2")
    if shims.sym_bytes([1, 2]) != b"\x01\x02" or shims.sym_bytes(3) != b"\0\0\0" or shims.sym_bytes() != b"":
        bad.append("bytes")
    if shims.sym_int("12") != 12 or shims.sym_int("ff", 16) != 255 or shims.sym_int(3.7) != 3:
        bad.append("int")
    if shims.sym_bool(0) is not False or shims.sym_bool([1]) is not True:
        bad.append("bool")
    return bad


def explorer():
    "a function with 3 symbolic branches over x in [0,9]: 4 feasible paths, each with the right outcome"
    outs = []

    def body(ctx):
        x = ctx.fresh("x", 0, 9)
        if x < 3:
            r = 0
        elif x < 5:
            r = 1
        elif x * 2 == 14:
            r = 2
        else:
            r = 3
        outs.append(r)
        exp = logic.Ite(x < 3, 0, logic.Ite(x < 5, 1, logic.Ite(x == 7, 2, 3)))
        return logic.Eq(exp, r)
    n = 0
    for r in explore(body, mode="int"):
        n += 1
        s = z3.Solver()
        s.add(*r.pc)
        s.add(z3.Not(core.to_z3_bool(r.post)))
        if s.check() != z3.unsat:
            return ["explorer: wrong outcome on a path"]
    if n != 4 or sorted(outs) != [0, 1, 2, 3]:
        return ["explorer: %d paths, outcomes %s" % (n, outs)]
    return []


def main():
    done, bad = run()
    bad2 = shims_identity()
    bad3 = explorer()
    print("selftest: %d operator evaluations cross-checked against CPython, %d mismatches; shims %s; explorer %s" % (
        done, len(bad), "ok" if not bad2 else bad2, "ok" if not bad3 else bad3))
    for b in bad[:10]:
        print("  MISMATCH", b)
    return 0 if not (bad or bad2 or bad3) and done > 500 else 3


if __name__ == "__main__":
    sys.exit(main())
