"""symx.core -- symbolic integers flowing through the REAL code objects of /repo.

The verifier executes real CPython functions on proxy integers (SInt) that wrap z3
terms.  Every truth test on a symbolic value is a branch point; paths are enumerated
exhaustively by re-execution with a recorded decision prefix (depth first).

Two term sorts ("modes"), chosen per obligation:
  int : z3 Int, exact unbounded arithmetic (Python ints are unbounded)
  bv  : z3 BitVec(W) holding the two's-complement sign extension of the Python int,
        with a conservative concrete interval [lo,hi]; every operation checks that the
        interval fits in W-2 bits, otherwise OutOfReach (never a wrapped value).

Engine control exceptions derive from BaseException so that `except Exception:` clauses of
the code under verification cannot swallow them.
"""
import builtins
import operator
import z3

_isinstance = builtins.isinstance
_bytes = builtins.bytes
_int = builtins.int
_len = builtins.len


class EngineSignal(BaseException):
    pass


class PathDone(EngineSignal):
    "current path is infeasible (or was cut by an assumption)"


class OutOfReach(EngineSignal):
    "the engine cannot follow the code here (limit exceeded / unsupported operation)"


class EngineError(EngineSignal):
    "internal inconsistency (non-deterministic re-execution...)"


class PreFalse(EngineSignal):
    "concrete provider: the sampled input does not satisfy the precondition"


# ---------------------------------------------------------------------------------------
# context
# ---------------------------------------------------------------------------------------

class Ctx(object):
    cur = None

    def __init__(self, mode="int", W=None, decisions=(), todo=None, logic=None,
                 index_limit=64, hash_limit=300, rlimit=0, timeout_ms=0):
        self.mode = mode
        self.W = W
        if mode == "bv":
            assert W
            self.LIM = 1 << (W - 2)
        self.solver = z3.SolverFor(logic) if logic else z3.Solver()
        if rlimit:
            self.solver.set("rlimit", rlimit)
        if timeout_ms:
            self.solver.set("timeout", timeout_ms)
        self.decisions = list(decisions)
        self.trace = []
        self.pc = []          # path condition (z3 Bool terms), includes preconditions
        self.todo = todo if todo is not None else []
        self.vars = {}        # name -> (z3 var, lo, hi)   declared inputs
        self.byte_vars = {}   # name -> list of names
        self.markers = []     # rendered symbolic constants
        self.rendered = []    # concrete constants rendered on this path (ints)
        self.index_limit = index_limit
        self.hash_limit = hash_limit
        self.nchecks = 0
        self.notes = []

    # -- terms
    def val(self, x):
        if self.mode == "int":
            return z3.IntVal(x)
        return z3.BitVecVal(x, self.W)

    def assume(self, c):
        if c is True:
            return
        if c is False:
            raise PathDone("assume False")
        if _isinstance(c, SBool):
            c = c.t
        c = z3.simplify(c)
        if z3.is_true(c):
            return
        if z3.is_false(c):
            raise PathDone("assume False")
        self.pc.append(c)
        self.solver.add(c)

    def fresh(self, name, lo, hi):
        if name in self.vars:
            raise EngineError("duplicate input %s" % name)
        if self.mode == "int":
            v = z3.Int(name)
        else:
            v = z3.BitVec(name, self.W)
            if lo < -self.LIM or hi > self.LIM:
                raise OutOfReach("input range does not fit working width")
        self.vars[name] = (v, lo, hi)
        c = z3.And(v >= lo, v <= hi)
        self.pc.append(c)
        self.solver.add(c)
        if lo == hi:
            return lo
        return SInt(v, lo, hi)

    def _check(self, *assumptions):
        self.nchecks += 1
        r = self.solver.check(*assumptions)
        return r

    def feasible(self, c):
        r = self._check(c)
        return r != z3.unsat  # unknown => explore (conservative)

    def decided(self, cond):
        "True / False when the path condition already forces cond, else None (never forks)"
        cond = z3.simplify(cond)
        if z3.is_true(cond):
            return True
        if z3.is_false(cond):
            return False
        if self._check(z3.Not(cond)) == z3.unsat:
            return True
        if self._check(cond) == z3.unsat:
            return False
        return None

    def note_rendered(self, c):
        """a CONCRETE constant c is being rendered to text.  If a symbolic constant rendered
        earlier on this path (as a marker) may equal c, texts would differ although the values are
        equal: the case 'equal' is re-run from the start under that assumption (the symbolic
        constant then renders as c itself), and this path continues under 'different'."""
        if c in self.rendered:
            return
        self.rendered.append(c)
        for (t, mk_) in self.markers:
            eq = (t == c)
            if self._check(eq) != z3.unsat:
                pres = [d for d in self.trace if d[0] == "pre"]
                self.todo.append(pres + [("pre", eq)])
                ne = z3.Not(eq)
                if self._check(ne) == z3.unsat:
                    raise PathDone("marker equals a constant rendered later")
                self.pc.append(ne)
                self.solver.add(ne)

    def _next_decision(self, kind):
        k = len(self.trace)
        if k < len(self.decisions):
            d = self.decisions[k]
            if d[0] != kind:
                raise EngineError("re-execution diverged: expected %r got %r at %d" % (d[0], kind, k))
            return d
        return None

    def branch(self, cond):
        "decide the symbolic truth value cond (z3 Bool); returns a Python bool"
        cond = z3.simplify(cond)
        if z3.is_true(cond):
            return True
        if z3.is_false(cond):
            return False
        d = self._next_decision("b")
        if d is not None:
            v = d[1]
        else:
            ft = self.feasible(cond)
            ff = self.feasible(z3.Not(cond))
            if ft and ff:
                v = True
                self.todo.append(self.trace + [("b", False)])
            elif ft:
                v = True
            elif ff:
                v = False
            else:
                raise PathDone("infeasible")
        self.trace.append(("b", v))
        c = cond if v else z3.Not(cond)
        self.pc.append(c)
        self.solver.add(c)
        return v

    def _as_int(self, v):
        if self.mode == "int":
            return v.as_long()
        return v.as_signed_long()

    def concretize(self, t, limit=None):
        "fork over ALL feasible values of term t; OutOfReach beyond `limit` values"
        t = z3.simplify(t)
        if z3.is_int_value(t):
            return t.as_long()
        if z3.is_bv_value(t):
            return t.as_signed_long()
        if limit is None:
            limit = self.index_limit
        d = self._next_decision("c")
        if d is not None:
            val = d[1]
        else:
            vals = []
            self.solver.push()
            try:
                while _len(vals) <= limit:
                    self.nchecks += 1
                    r = self.solver.check()
                    if r == z3.unsat:
                        break
                    if r != z3.sat:
                        raise OutOfReach("concretize: solver unknown")
                    v = self._as_int(self.solver.model().eval(t, model_completion=True))
                    vals.append(v)
                    self.solver.add(t != v)
            finally:
                self.solver.pop()
            if not vals:
                raise PathDone("infeasible")
            if _len(vals) > limit:
                raise OutOfReach("concretize: more than %d values" % limit)
            vals.sort()
            val = vals[0]
            for v in reversed(vals[1:]):
                self.todo.append(self.trace + [("c", v)])
        self.trace.append(("c", val))
        c = t == val
        self.pc.append(c)
        self.solver.add(c)
        return val

    def forced_value(self, t):
        "return the single value t can take under the path condition, or None"
        t = z3.simplify(t)
        if z3.is_int_value(t):
            return t.as_long()
        if z3.is_bv_value(t):
            return t.as_signed_long()
        self.nchecks += 1
        if self.solver.check() != z3.sat:
            return None
        v = self.solver.model().eval(t, model_completion=True)
        if self._check(t != v) == z3.unsat:
            return self._as_int(v)
        return None


def cur():
    c = Ctx.cur
    if c is None:
        raise EngineError("symbolic value used outside an exploration")
    return c


# ---------------------------------------------------------------------------------------
# symbolic booleans
# ---------------------------------------------------------------------------------------

def _bool_term(o):
    if _isinstance(o, SBool):
        return o.t
    if _isinstance(o, bool):
        return z3.BoolVal(o)
    return None


class SBool(object):
    __slots__ = ["t"]

    def __init__(self, t):
        self.t = t

    def __bool__(self):
        return cur().branch(self.t)

    def _int(self):
        c = cur()
        return SInt(z3.If(self.t, c.val(1), c.val(0)), 0, 1)

    def __index__(self):
        return 1 if bool(self) else 0

    def __hash__(self):
        return hash(bool(self))

    def __invert__(self):
        # NOTE: python's ~True is -2; harness code must use logic.Not. Real code doing ~bool
        # gets the integer semantics.
        return ~self._int()

    def __and__(self, o):
        b = _bool_term(o)
        if b is not None:
            return SBool(z3.And(self.t, b))
        return self._int() & o
    __rand__ = __and__

    def __or__(self, o):
        b = _bool_term(o)
        if b is not None:
            return SBool(z3.Or(self.t, b))
        return self._int() | o
    __ror__ = __or__

    def __xor__(self, o):
        b = _bool_term(o)
        if b is not None:
            return SBool(z3.Xor(self.t, b))
        return self._int() ^ o
    __rxor__ = __xor__

    def __eq__(self, o):
        b = _bool_term(o)
        if b is not None:
            return SBool(self.t == b)
        if _isinstance(o, (_int, SInt)):
            return self._int() == o
        return NotImplemented

    def __ne__(self, o):
        b = _bool_term(o)
        if b is not None:
            return SBool(self.t != b)
        if _isinstance(o, (_int, SInt)):
            return self._int() != o
        return NotImplemented

    def __add__(self, o): return self._int() + o
    def __radd__(self, o): return o + self._int()
    def __sub__(self, o): return self._int() - o
    def __rsub__(self, o): return o - self._int()
    def __mul__(self, o): return self._int() * o
    def __rmul__(self, o): return o * self._int()
    def __lshift__(self, o): return self._int() << o
    def __rlshift__(self, o): return o << self._int()
    def __rshift__(self, o): return self._int() >> o
    def __lt__(self, o): return self._int() < o
    def __le__(self, o): return self._int() <= o
    def __gt__(self, o): return self._int() > o
    def __ge__(self, o): return self._int() >= o
    def __neg__(self): return -self._int()

    def __repr__(self):
        return "SBool(%s)" % z3.simplify(self.t)


# ---------------------------------------------------------------------------------------
# symbolic integers
# ---------------------------------------------------------------------------------------

def _runs(c):
    "maximal runs of 1 bits of a non-negative int: list of (lsb, length)"
    out = []
    i = 0
    while c:
        if c & 1:
            j = i
            while c & 1:
                c >>= 1
                j += 1
            out.append((i, j - i))
            i = j
        else:
            c >>= 1
            i += 1
    return out


def lift(x):
    "SInt for an int / bool / SBool / SInt"
    if _isinstance(x, SInt):
        return x
    if _isinstance(x, SBool):
        return x._int()
    if _isinstance(x, (bool, _int)):
        x = _int(x)
        c = cur()
        if c.mode == "bv" and (x < -c.LIM or x > c.LIM):
            raise OutOfReach("constant does not fit the working width")
        return SInt(c.val(x), x, x)
    raise TypeError(x)


def _num(o):
    return _isinstance(o, (_int, SInt, SBool))


def mk(t, lo, hi):
    "build a value from a term and its interval: plain int when the interval is a point"
    if lo == hi:
        return lo
    return SInt(t, lo, hi)


class SInt(object):
    __slots__ = ["t", "lo", "hi"]

    def __init__(self, t, lo, hi):
        c = Ctx.cur
        if c is not None and c.mode == "bv" and (lo < -c.LIM or hi > c.LIM):
            raise OutOfReach("interval [%d bits] exceeds working width %d" % (max(abs(lo), abs(hi)).bit_length(), c.W))
        self.t = t
        self.lo = lo
        self.hi = hi

    # ---- arithmetic
    def __add__(s, o):
        if not _num(o): return NotImplemented
        o = lift(o)
        return SInt(s.t + o.t, s.lo + o.lo, s.hi + o.hi)
    __radd__ = __add__

    def __sub__(s, o):
        if not _num(o): return NotImplemented
        o = lift(o)
        return SInt(s.t - o.t, s.lo - o.hi, s.hi - o.lo)

    def __rsub__(s, o):
        if not _num(o): return NotImplemented
        return lift(o) - s

    def __mul__(s, o):
        if not _num(o): return NotImplemented
        o = lift(o)
        c = [s.lo * o.lo, s.lo * o.hi, s.hi * o.lo, s.hi * o.hi]
        return SInt(s.t * o.t, min(c), max(c))
    __rmul__ = __mul__

    def __neg__(s):
        return SInt(-s.t, -s.hi, -s.lo)

    def __pos__(s):
        return s

    def __abs__(s):
        if s.lo >= 0:
            return s
        if s.hi <= 0:
            return -s
        return SInt(z3.If(s.t >= 0, s.t, -s.t), 0, max(-s.lo, s.hi))

    def __invert__(s):
        if cur().mode == "int":
            return SInt(-s.t - 1, -s.hi - 1, -s.lo - 1)
        return SInt(~s.t, -s.hi - 1, -s.lo - 1)

    # ---- division
    def __floordiv__(s, o):
        if not _num(o): return NotImplemented
        o = lift(o)
        ctx = cur()
        if o.lo <= 0 <= o.hi:
            # python raises ZeroDivisionError on 0: fork
            if ctx.branch(o.t == 0):
                raise ZeroDivisionError("integer division or modulo by zero")
            if o.lo == 0:
                o = SInt(o.t, 1, o.hi)
            elif o.hi == 0:
                o = SInt(o.t, o.lo, -1)
            else:
                if ctx.branch(o.t > 0):
                    o = SInt(o.t, 1, o.hi)
                else:
                    o = SInt(o.t, o.lo, -1)
        if o.hi < 0:
            return (-s) // (-o)
        # divisor positive
        cands = [s.lo // o.lo, s.lo // o.hi, s.hi // o.lo, s.hi // o.hi]
        lo, hi = min(cands), max(cands)
        if ctx.mode == "int":
            return SInt(s.t / o.t, lo, hi)   # z3 Int div floors for positive divisors
        if o.lo == o.hi and (o.lo & (o.lo - 1)) == 0:
            return SInt(s.t >> (o.lo.bit_length() - 1), lo, hi)
        q = s.t / o.t              # bvsdiv: truncates toward zero
        r = z3.SRem(s.t, o.t)      # sign of dividend
        q = z3.If(z3.And(r != 0, r < 0), q - 1, q)
        return SInt(q, lo, hi)

    def __rfloordiv__(s, o):
        if not _num(o): return NotImplemented
        return lift(o) // s

    def __mod__(s, o):
        if not _num(o): return NotImplemented
        ctx = cur()
        if _isinstance(o, _int) and not _isinstance(o, bool) and o > 0:
            if 0 <= s.lo and s.hi < o:
                return s
            if ctx.mode == "int":
                return SInt(s.t % o, 0, o - 1)
            if (o & (o - 1)) == 0:
                return SInt(s.t & (o - 1), 0, o - 1)
        o = lift(o)
        q = s // o
        r = s - q * o
        if o.lo > 0:
            r = SInt(r.t, 0, o.hi - 1)
        elif o.hi < 0:
            r = SInt(r.t, o.lo + 1, 0)
        return r

    def __rmod__(s, o):
        if not _num(o): return NotImplemented
        return lift(o) % s

    def __divmod__(s, o):
        return (s // o, s % o)

    def __truediv__(s, o):
        raise OutOfReach("true division of a symbolic integer")
    __rtruediv__ = __truediv__

    def __pow__(s, o, m=None):
        if _isinstance(o, _int) and m is None and 0 <= o <= 4:
            r = 1
            for _ in range(o):
                r = r * s
            return r
        raise OutOfReach("pow")

    def __rpow__(s, o):
        if o == 2:
            return 1 << s
        raise OutOfReach("rpow")

    # ---- bitwise
    def _and_const(s, c):
        "s & c for a concrete python int c (both modes), exact"
        ctx = cur()
        if c == 0:
            return 0
        if c == -1:
            return s
        if c < 0:
            # x & c = x - (x & ~c)
            return s - s._and_const(~c)
        if s.lo >= 0 and s.hi <= c and (c & (c + 1)) == 0:
            return s
        if ctx.mode == "bv":
            return SInt(s.t & ctx.val(c), 0, min(c, s.hi) if s.lo >= 0 else c)
        res = None
        for (lsb, n) in _runs(c):
            x = s
            if lsb:
                x = SInt(x.t / (1 << lsb), x.lo >> lsb, x.hi >> lsb)
            if not (0 <= x.lo and x.hi < (1 << n)):
                x = SInt(x.t % (1 << n), 0, (1 << n) - 1)
            if lsb:
                x = SInt(x.t * (1 << lsb), x.lo << lsb, x.hi << lsb)
            res = x if res is None else res + x
        if s.lo >= 0 and res.hi > s.hi:
            res = SInt(res.t, res.lo, s.hi)
        return res

    def _bitop(s, o, name):
        ctx = cur()
        o = lift(o)
        m = max(abs(s.lo), abs(s.hi), abs(o.lo), abs(o.hi)).bit_length()
        if s.lo >= 0 and o.lo >= 0:
            lo, hi = 0, (1 << m) - 1
        else:
            lo, hi = -(1 << m), (1 << m) - 1
        if name == "and":
            if o.lo >= 0:
                lo, hi = 0, min(hi, o.hi)
            if s.lo >= 0:
                lo, hi = 0, min(hi, s.hi)
        if ctx.mode == "bv":
            f = {"and": operator.and_, "or": operator.or_, "xor": operator.xor}[name]
            return SInt(f(s.t, o.t), lo, hi)
        # int mode, both symbolic
        if name != "and":
            a = s._bitop(o, "and")
            if name == "or":
                return s + o - a
            return s + o - 2 * a
        if 0 <= o.lo and o.hi <= 1:
            return o * (s % 2)
        if 0 <= s.lo and s.hi <= 1:
            return s * (o % 2)
        if s.lo < 0 or o.lo < 0:
            raise OutOfReach("int mode: & of two symbolic values with negative range")
        n = m + 1
        ctx.notes.append("int2bv")
        t = z3.BV2Int(z3.Int2BV(s.t, n) & z3.Int2BV(o.t, n))
        return SInt(t, lo, hi)

    def __and__(s, o):
        if not _num(o): return NotImplemented
        if _isinstance(o, _int):
            return s._and_const(_int(o))
        return s._bitop(o, "and")
    __rand__ = __and__

    def __or__(s, o):
        if not _num(o): return NotImplemented
        if _isinstance(o, _int) and cur().mode == "int":
            o = _int(o)
            return s + o - s._and_const(o)
        return s._bitop(o, "or")
    __ror__ = __or__

    def __xor__(s, o):
        if not _num(o): return NotImplemented
        if _isinstance(o, _int) and cur().mode == "int":
            o = _int(o)
            return s + o - 2 * s._and_const(o)
        return s._bitop(o, "xor")
    __rxor__ = __xor__

    def __lshift__(s, o):
        if not _num(o): return NotImplemented
        ctx = cur()
        if not _isinstance(o, _int):
            o = lift(o)
            if o.lo < 0:
                if ctx.branch(o.t < 0):
                    raise ValueError("negative shift count")
                o = SInt(o.t, 0, o.hi)
            if ctx.mode == "int" or o.hi >= ctx.W:
                o = ctx.concretize(o.t, limit=max(ctx.index_limit, 1100))
            else:
                lo = min(s.lo << o.hi, s.lo << o.lo)
                hi = max(s.hi << o.hi, s.hi << o.lo)
                return SInt(s.t << o.t, lo, hi)
        o = _int(o)
        if o < 0:
            raise ValueError("negative shift count")
        if ctx.mode == "int":
            return SInt(s.t * (1 << o), s.lo << o, s.hi << o)
        if o >= ctx.W:
            raise OutOfReach("shift amount beyond working width")
        return SInt(s.t << o, s.lo << o, s.hi << o)

    def __rlshift__(s, o):
        if not _num(o): return NotImplemented
        return lift(o) << s

    def __rshift__(s, o):
        if not _num(o): return NotImplemented
        ctx = cur()
        if not _isinstance(o, _int):
            o = lift(o)
            if o.lo < 0:
                if ctx.branch(o.t < 0):
                    raise ValueError("negative shift count")
                o = SInt(o.t, 0, o.hi)
            if ctx.mode == "int":
                o = ctx.concretize(o.t, limit=max(ctx.index_limit, 1100))
            else:
                amt = z3.If(o.t > ctx.W - 1, ctx.val(ctx.W - 1), o.t)
                lo = min(s.lo >> o.lo, s.lo >> o.hi)
                hi = max(s.hi >> o.lo, s.hi >> o.hi)
                return SInt(s.t >> amt, lo, hi)
        o = _int(o)
        if o < 0:
            raise ValueError("negative shift count")
        if o >= max(abs(s.lo), abs(s.hi)).bit_length():
            # every bit is shifted out: 0 for non-negative values, -1 for negative ones
            if s.lo >= 0:
                return 0
            if s.hi < 0:
                return -1
            return SInt(z3.If(s.t < 0, ctx.val(-1), ctx.val(0)), -1, 0)
        if ctx.mode == "int":
            return SInt(s.t / (1 << o), s.lo >> o, s.hi >> o)
        if o >= ctx.W:
            o = ctx.W - 1
        return SInt(s.t >> o, s.lo >> o, s.hi >> o)

    def __rrshift__(s, o):
        if not _num(o): return NotImplemented
        return lift(o) >> s

    # ---- comparisons (decided by the intervals when possible)
    def __lt__(s, o):
        if not _num(o): return NotImplemented
        o = lift(o)
        if s.hi < o.lo: return True
        if s.lo >= o.hi: return False
        return SBool(s.t < o.t)

    def __le__(s, o):
        if not _num(o): return NotImplemented
        o = lift(o)
        if s.hi <= o.lo: return True
        if s.lo > o.hi: return False
        return SBool(s.t <= o.t)

    def __gt__(s, o):
        if not _num(o): return NotImplemented
        o = lift(o)
        if s.lo > o.hi: return True
        if s.hi <= o.lo: return False
        return SBool(s.t > o.t)

    def __ge__(s, o):
        if not _num(o): return NotImplemented
        o = lift(o)
        if s.lo >= o.hi: return True
        if s.hi < o.lo: return False
        return SBool(s.t >= o.t)

    def __eq__(s, o):
        if not _num(o): return NotImplemented
        o = lift(o)
        if s.hi < o.lo or s.lo > o.hi: return False
        return SBool(s.t == o.t)

    def __ne__(s, o):
        if not _num(o): return NotImplemented
        o = lift(o)
        if s.hi < o.lo or s.lo > o.hi: return True
        return SBool(s.t != o.t)

    # ---- places where a concrete value is required: fork over all feasible values
    def __hash__(s):
        c = cur()
        if c.hash_limit == 0:
            # the obligation declares that symbolic values are only *stored* as dict keys
            # (single-entry containers), never looked up: hash by term identity
            return s.t.hash()
        return hash(c.concretize(s.t, limit=c.hash_limit))

    def __bool__(s):
        if s.lo > 0 or s.hi < 0:
            return True
        return cur().branch(s.t != 0)

    def __index__(s):
        return cur().concretize(s.t)

    def __int__(s):
        # int(x) must return a real int
        return cur().concretize(s.t)

    def __float__(s):
        raise OutOfReach("float() of a symbolic integer")

    def bit_length(s):
        ctx = cur()
        a = abs(s)
        if not _isinstance(a, SInt):
            return a.bit_length()
        kmin = a.lo.bit_length()
        kmax = a.hi.bit_length()
        for k in range(kmin, kmax):
            hi = (1 << k) - 1
            if ctx.branch(a.t <= hi):
                return k
        return kmax

    def to_bytes(s, length=1, byteorder="big", signed=False):
        if signed:
            raise OutOfReach("to_bytes signed")
        items = [(s >> (8 * i)) & 0xFF for i in range(length)]
        if byteorder == "big":
            items.reverse()
        return SymBytes(items)

    # ---- rendering: amoco compares / hashes expressions by their text
    def __format__(s, spec):
        ctx = cur()
        v = ctx.forced_value(s.t)
        if v is not None:
            ctx.note_rendered(v)
            return format(v, spec)
        for (u, mk_) in ctx.markers:
            if ctx.branch(s.t == u):
                return mk_ if not spec else "%s" % mk_
        for cv in list(ctx.rendered):
            if s.lo <= cv <= s.hi and ctx.branch(s.t == cv):
                return format(cv, spec)
        mk_ = "⟦k%d⟧" % _len(ctx.markers)
        ctx.markers.append((s.t, mk_))
        return mk_

    def __str__(s):
        return s.__format__("")

    def __repr__(s):
        return "SInt(%s)[%s,%s]" % (z3.simplify(s.t), s.lo, s.hi)


# ---------------------------------------------------------------------------------------
# symbolic byte strings
# ---------------------------------------------------------------------------------------

class SymBytes(object):
    "sequence of bytes, some of them symbolic (SInt in [0,255])"

    def __init__(self, items=()):
        self.items = list(items)

    def __len__(self):
        return _len(self.items)

    def __iter__(self):
        return iter(self.items)

    def __getitem__(self, i):
        if _isinstance(i, slice):
            return SymBytes(self.items[i])
        return self.items[i]

    def __add__(self, o):
        if _isinstance(o, (SymBytes, _bytes, bytearray, list)):
            return SymBytes(self.items + list(o))
        return NotImplemented

    def __radd__(self, o):
        if _isinstance(o, (_bytes, bytearray, list)):
            return SymBytes(list(o) + self.items)
        return NotImplemented

    def __mul__(self, n):
        return SymBytes(self.items * operator.index(n))

    def __bool__(self):
        return _len(self.items) > 0

    def __eq__(self, o):
        if _isinstance(o, (SymBytes, _bytes, bytearray)):
            if _len(o) != _len(self.items):
                return False
            r = True
            for a, b in zip(self.items, o):
                e = (a == b)
                if e is False:
                    return False
                if e is True:
                    continue
                r = e if r is True else (r & e)
            return r
        return NotImplemented

    def __ne__(self, o):
        r = self.__eq__(o)
        if r is NotImplemented:
            return r
        if _isinstance(r, bool):
            return not r
        return SBool(z3.Not(r.t))

    __hash__ = None

    def hex(self):
        return "".join("%02x" % operator.index(x) for x in self.items)

    def __repr__(self):
        return "SymBytes(%r)" % (self.items,)


# ---------------------------------------------------------------------------------------
# exploration
# ---------------------------------------------------------------------------------------

class PathResult(object):
    __slots__ = ["decisions", "pc", "vars", "post", "exc", "notes", "nchecks", "extra"]


def explore(body, mode="int", W=None, logic=None, maxpaths=20000, index_limit=64,
            hash_limit=300, rlimit=0, before_path=None, timeout_ms=0):
    """Run body(ctx) along every feasible path.  Yields PathResult objects.

    body returns the postcondition (bool / SBool / z3 Bool / dict of those); an ordinary
    Exception escaping body is recorded in .exc (the contract decides what it means).
    """
    todo = [[]]
    n = 0
    while todo:
        dec = todo.pop()
        n += 1
        if n > maxpaths:
            raise OutOfReach("more than %d paths" % maxpaths)
        ctx = Ctx(mode=mode, W=W, decisions=dec, todo=todo, logic=logic,
                  index_limit=index_limit, hash_limit=hash_limit, rlimit=rlimit, timeout_ms=timeout_ms)
        Ctx.cur = ctx
        if before_path is not None:
            before_path()
        try:
            for d in dec:
                if d[0] != "pre":
                    break
                ctx.trace.append(d)
                ctx.assume(d[1])
        except PathDone:
            Ctx.cur = None
            continue
        r = PathResult()
        r.exc = None
        r.post = None
        r.extra = None
        try:
            r.post = body(ctx)
        except PathDone:
            continue
        except Exception as e:  # real code raised on this path
            if isinstance(e, TypeError) and "__hash__ method should return an integer" in str(e):
                # an expression whose *size* became symbolic was hashed (exp.__hash__ adds the
                # size to the text hash): the engine cannot follow, the path proves nothing
                Ctx.cur = None
                raise OutOfReach("expression with a symbolic size was hashed")
            r.exc = e
        finally:
            Ctx.cur = None
        if _len(ctx.trace) < _len(dec):
            raise EngineError("re-execution consumed fewer decisions than recorded")
        r.decisions = list(ctx.trace)
        r.pc = list(ctx.pc)
        r.vars = dict(ctx.vars)
        r.notes = ctx.notes
        r.nchecks = ctx.nchecks
        yield r


def to_z3_bool(p):
    if _isinstance(p, SBool):
        return p.t
    if _isinstance(p, bool):
        return z3.BoolVal(p)
    if _isinstance(p, z3.BoolRef):
        return p
    if _isinstance(p, (SInt,)):
        return p.t != 0
    if _isinstance(p, _int):
        return z3.BoolVal(p != 0)
    raise TypeError("postcondition is not boolean: %r" % (p,))
