"""Denotation of an amoco expression tree: an independent walker from the object graph to a
bit-vector value (unsigned int in [0, 2^size)), given a register valuation rho (and, for
memory expressions, an initial memory mu).  It never calls eval / simplify / any operator of
the code under test: it only READS fields (size, sf, v, ref, x, pos, parts, tst, l, r, op.symbol,
a.base, a.disp, mods, endian).  Polymorphic over plain ints and symbolic proxies.

den returns None when nothing is claimed for the node (top / undefined / vec / ambiguous
signedness / rotation amount that may reach the width); Malformed is raised when the object
graph itself breaks a structural invariant (comp parts that do not tile, size mismatch).
"""
from symx.logic import And, Or, Not, Ite, Eq, sgn, b2i, is_sym
from specs import refsem as R


class Malformed(Exception):
    pass


class NoClaim(Exception):
    "the node has no single bit-vector meaning under the property's preconditions"


def _comp_tiling(e):
    keys = sorted(e.parts.keys())
    pos = 0
    for (a, b) in keys:
        if a != pos or b <= a:
            raise Malformed("comp parts do not tile: %s" % (keys,))
        if e.parts[(a, b)].size != b - a:
            raise Malformed("comp part (%d,%d) has size %d" % (a, b, e.parts[(a, b)].size))
        pos = b
    if pos != e.size:
        raise Malformed("comp parts cover [0,%d) but size is %d" % (pos, e.size))
    if len(e.smask) != e.size:
        raise Malformed("smask length")
    for (a, b) in keys:
        for i in range(a, b):
            if e.smask[i] != (a, b):
                raise Malformed("smask[%d]=%s but part is %s" % (i, e.smask[i], (a, b)))
    return keys


def check_widths(e, seen=None):
    "C12 structural invariant of every node reachable from e; raises Malformed"
    if e is None:
        return
    et = e.etype
    if e._is_top or not e._is_def:
        return
    if e._is_cst:
        return
    if e._is_slc:
        if not (0 <= e.pos and e.pos + e.size <= e.x.size and e.size > 0):
            raise Malformed("slc [%d:%d] of a %d-bit expression" % (e.pos, e.pos + e.size, e.x.size))
        check_widths(e.x)
        return
    if e._is_reg:
        return
    if e._is_cmp:
        for k in _comp_tiling(e):
            check_widths(e.parts[k])
        return
    if e._is_tst:
        if e.l.size != e.size or e.r.size != e.size or e.tst.size != 1:
            raise Malformed("tst sizes %d ? %d : %d -> %d" % (e.tst.size, e.l.size, e.r.size, e.size))
        for x in (e.tst, e.l, e.r):
            check_widths(x)
        return
    if e._is_eqn:
        sym = e.op.symbol
        if e.op.unary:
            if e.r.size != e.size:
                raise Malformed("uop size")
            check_widths(e.r)
            return
        if sym in ("==", "!=", "<", "<=", ">", ">=", "<.", ">=."):
            if e.size != 1 or e.l.size != e.r.size:
                raise Malformed("comparison sizes %d,%d -> %d" % (e.l.size, e.r.size, e.size))
        elif sym == "**":
            if e.size != 2 * e.l.size or e.l.size != e.r.size:
                raise Malformed("widening multiply sizes")
        elif sym in ("<<", ">>", ".>>", ">>>", "<<<"):
            if e.size != e.l.size:
                raise Malformed("shift size")
        else:
            if e.size != e.l.size or e.l.size != e.r.size:
                raise Malformed("op %s sizes %d,%d -> %d" % (sym, e.l.size, e.r.size, e.size))
        check_widths(e.l)
        check_widths(e.r)
        return
    if e._is_vec:
        for x in e.l:
            if x.size != e.size:
                raise Malformed("vec element size")
            check_widths(x)
        return
    if e._is_mem:
        check_widths(e.a.base)
        return
    if e._is_ptr:
        check_widths(e.base)
        return


def _signedness(l, r):
    if l.sf and r.sf:
        return True
    if not l.sf and not r.sf:
        return False
    raise NoClaim("operands with different signedness flags")


def den(e, rho, mu=None, side=None):
    """value of e under rho; raises NoClaim / Malformed.  Conditions under which the value is
    claimed (non-zero divisor, rotation amount < width) are appended to `side`."""
    if side is None:
        side = []
    if e._is_top or not e._is_def:
        raise NoClaim("top/undefined")
    w = e.size
    if e._is_cst:
        if hasattr(e, "v") and not isinstance(e.v, float):
            return e.v
        raise NoClaim("float constant")
    if e._is_slc:
        x = den(e.x, rho, mu, side)
        if not (0 <= e.pos and e.pos + e.size <= e.x.size):
            raise Malformed("slice out of range")
        return R.slc(x, e.pos, e.size, e.x.size)
    if e._is_reg:
        if e._is_ext or e._is_lab:
            raise NoClaim("external symbol")
        try:
            return rho[e.ref]
        except KeyError:
            raise NoClaim("unbound register %s" % e.ref)
    if e._is_cmp:
        keys = _comp_tiling(e)
        return R.concat([(den(e.parts[k], rho, mu, side), k[1] - k[0]) for k in keys])
    if e._is_tst:
        c = den(e.tst, rho, mu, side)
        return Ite(c == 1, den(e.l, rho, mu, side), den(e.r, rho, mu, side))
    if e._is_eqn:
        sym = e.op.symbol
        if e.op.unary:
            r = den(e.r, rho, mu, side)
            if sym == "-":
                return R.neg(r, w)
            if sym == "~":
                return R.inv(r, w)
            if sym == "+":
                return r
            raise Malformed("unary operator %s" % sym)
        l = den(e.l, rho, mu, side)
        r = den(e.r, rho, mu, side)
        lw = e.l.size
        if sym == "+": return R.add(l, r, lw)
        if sym == "-": return R.sub(l, r, lw)
        if sym == "*": return R.mul(l, r, lw)
        if sym == "&": return R.band(l, r, lw)
        if sym == "|": return R.bor(l, r, lw)
        if sym == "^": return R.bxor(l, r, lw)
        if sym == "==": return R.eq(l, r, lw)
        if sym == "!=": return R.ne(l, r, lw)
        if sym == "<.": return R.ltu(l, r, lw)
        if sym == ">=.": return R.geu(l, r, lw)
        if sym == "<<": return R.lsl(l, r, lw)
        if sym == ">>": return R.lsr(l, r, lw)
        if sym == ".>>": return R.asr(l, r, lw)
        if sym in (">>>", "<<<"):
            if not is_sym(r) and not (0 <= r < lw):
                raise NoClaim("rotation amount >= width")
            side.append(r < lw)
            rr = Ite(r < lw, r, 0)
            return R.ror(l, rr, lw) if sym == ">>>" else R.rol(l, rr, lw)
        s = _signedness(e.l, e.r)
        if sym == "<": return R.lt(l, r, lw, s)
        if sym == "<=": return R.le(l, r, lw, s)
        if sym == ">": return R.gt(l, r, lw, s)
        if sym == ">=": return R.ge(l, r, lw, s)
        if sym == "**": return R.mul2(l, r, lw, s)
        if sym in ("/", "%"):
            if not is_sym(r) and r == 0:
                raise NoClaim("division by zero")
            side.append(r != 0)
            rr = Ite(r != 0, r, 1)
            return R.div(l, rr, lw, s) if sym == "/" else R.rem(l, rr, lw, s)
        raise Malformed("operator %s" % sym)
    if e._is_ptr:
        b = den(e.base, rho, mu, side)
        return (b + e.disp) % (1 << e.size)
    if e._is_mem:
        # a load; e.mods is the ordered list of earlier possibly-aliasing stores attached to it:
        # the value is what the load reads after replaying them, in order, over the initial
        # memory mu (mu(addr) -> byte; None: nothing is known, every byte read must then be
        # covered by a replayed store -- recorded as a side condition)
        if w % 8:
            raise NoClaim("memory access of %d bits" % w)
        n = w // 8
        addr = den(e.a, rho, mu, side)
        AM = 1 << e.a.size
        stores = []
        for (loc, v) in e.mods:
            if loc._is_mem:
                loc = loc.a
            if not loc._is_ptr:
                raise NoClaim("mod location %r" % (loc,))
            la = den(loc, rho, mu, side)
            vv = den(v, rho, mu, side)
            if v.size % 8:
                raise NoClaim("stored value of %d bits" % v.size)
            vn = v.size // 8
            for j in range(vn):
                k = j if e.endian == 1 else vn - 1 - j
                stores.append(((la + j) % AM, (vv >> (8 * k)) % 256))
        val = 0
        for j in range(n):
            x = (addr + j) % AM
            if mu is not None:
                b = mu(x)
                cov = True
            else:
                b = 0
                cov = False
            for (a, bv) in stores:
                c = (x == a)
                b = Ite(c, bv, b)
                cov = Or(cov, c)
            side.append(cov)
            k = j if e.endian == 1 else n - 1 - j
            val = val + (b << (8 * k))
        return val
    raise NoClaim("node kind %x" % e.etype)


def snapshot(e):
    "structural fingerprint (text + size) used to report re-shaping; not a denotation"
    return ("%s" % e, e.size)
