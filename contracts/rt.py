"""Run-time contracts (bounded: concrete, spec-driven inputs; never counted as proved) on the
real decoders with their real setup functions, formatters and semantics.

Inputs: for every importable cpu module and mode, for every shipped specification, K byte
strings whose fixed bits match it (free bits, tails and -- on x86/x64 -- legal prefixes drawn
from a seeded generator), plus random strings.  On each input b:

 C17  decode returns an instruction or None and does not raise; a returned instruction has a
      mnemonic, a known type, length >= 1, a list of operands; str(i), i.toks() and the pickle
      round trip work and agree; i(mapper()) does not raise.
 C05  i.bytes == b[:i.length], 1 <= length <= len(b); decoding b[:length], b[:length]+t (seeded t)
      and the maxlen window give the same instruction.
 C11  the outcome of decoding b does not depend on the calls made before (the corpus is decoded
      in three different orders on the same disassembler object; outcomes must be identical).
 C10  decoding, formatting and executing leave every shared object unchanged: (size, sf, etype,
      ref) of every register / slice exported by the architecture's env module, and env.internals.
"""
import importlib
import pickle
import random
import time

import amoco.cas.expressions as E
from amoco.cas.mapper import mapper
import amoco.arch.core as AC

from contracts.decoder import cpus, flat, _Concrete
from specs.fmtsem import fmtsem

X86 = ("amoco.arch.x86.cpu_x86", "amoco.arch.x64.cpu_x64")
PFX86 = [0x66, 0x67, 0xF2, 0xF3, 0x2E, 0x36, 0x3E, 0x26, 0x64, 0x65, 0xF0]


def size_variants(mn, d, mode, seed):
    "x86/x64: every specification under an operand-size (66) and an address-size (67) override"
    rng = random.Random("rt-sizes/%s/%s" % (mn, seed))
    out = []
    for s in flat(d.specs[mode]):
        try:
            f = fmtsem(s.format)
        except Exception:
            continue
        blen = f.nbits // 8
        for _ in range(3):          # three draws of the free bits and of the ModRM/SIB/displacement tail
            word = f.fix | (rng.getrandbits(f.nbits) & ~f.mask)
            b = word.to_bytes(blen, "little") + bytes(rng.getrandbits(8) for _ in range(max(1, d.maxlen - blen - 1)))
            out.append(b"\x66" + b)
            out.append(b"\x67" + b)
    return out


def corpus(mn, d, mode, k, rng, nrandom):
    out = []
    e = d.endian()
    for s in flat(d.specs[mode]):
        try:
            f = fmtsem(s.format)
        except Exception:
            continue
        blen = f.nbits // 8
        for _ in range(k):
            word = f.fix | (rng.getrandbits(f.nbits) & ~f.mask)
            bs = word.to_bytes(blen, "little" if e == 1 else "big")
            tail = bytes(rng.getrandbits(8) for _ in range(rng.choice((0, 0, 1, 4, max(0, d.maxlen - blen)))))
            if f.size == 0 and not tail:
                tail = bytes(rng.getrandbits(8) for _ in range(max(1, d.maxlen - blen)))
            b = bs + tail
            if mn in X86 and rng.random() < 0.3:
                p = bytes(rng.choice(PFX86) for _ in range(rng.choice((1, 1, 2))))
                if mn.endswith("x64") and rng.random() < 0.5:
                    p += bytes([0x40 + rng.getrandbits(4)])
                b = p + b
            out.append(b)
    for _ in range(nrandom):
        out.append(bytes(rng.getrandbits(8) for _ in range(rng.randint(1, d.maxlen + 2))))
    return out


def describe(i):
    if i is None:
        return None
    try:
        ops = [str(o) for o in i.operands]
    except Exception as e:
        ops = ["<%s>" % type(e).__name__]
    return (bytes(i.bytes).hex(), i.mnemonic, tuple(ops), tuple(sorted((str(k), str(v)) for k, v in i.misc.items() if v is not None)))


def decode(d, b):
    "('ok', description) | ('raise', exception signature)"
    try:
        i = d(b)
    except Exception as e:
        return "raise", sig(e), None
    return "ok", describe(i), i


def sig(e):
    import traceback
    tb = traceback.extract_tb(e.__traceback__)
    where = ""
    for fr in reversed(tb):
        if "/amoco/" in fr.filename:
            where = "%s:%s" % (fr.filename.split("/amoco/")[-1], fr.name)
            break
    return "%s@%s" % (type(e).__name__, where)


def sig_arch(e):
    "like sig, but names the innermost frame of the ISA package (the semantics / formatting function), not the generic helper that raised"
    import traceback
    tb = traceback.extract_tb(e.__traceback__)
    for fr in reversed(tb):
        if "/amoco/arch/" in fr.filename and not fr.filename.endswith("arch/core.py"):
            return "%s@%s:%s" % (type(e).__name__, fr.filename.split("/amoco/")[-1], fr.name)
    return sig(e)


class Forced(object):
    def __init__(self, d, mode):
        self.d, self.mode = d, mode

    def __enter__(self):
        self.saved = self.d.iset
        self.d.iset = lambda *a, **k: self.mode
        setattr(self.d, "_disassembler__i", None)

    def __exit__(self, *a):
        self.d.iset = self.saved
        setattr(self.d, "_disassembler__i", None)


def shared_objects(mn):
    "registers / slices exported by the cpu module (they come from its env module)"
    import importlib
    m = importlib.import_module(mn)
    out = {}
    for k, v in vars(m).items():
        if isinstance(v, E.exp) and (v._is_reg or v._is_slc):
            out[k] = v
        elif isinstance(v, (list, tuple)) and v and all(isinstance(x, E.exp) for x in v):
            for n, x in enumerate(v):
                if x._is_reg or x._is_slc:
                    out["%s[%d]" % (k, n)] = x
    internals = getattr(m, "internals", None)
    return out, internals


def fingerprint(objs, internals):
    fp = {}
    for k, v in objs.items():
        fp[k] = (v.size, bool(v.sf), v.etype, getattr(v, "ref", None))
    fp["<internals>"] = repr(sorted(internals.items())) if isinstance(internals, dict) else None
    fp["<regtype.cur>"] = E.regtype.cur
    return fp


def _run(prop, mn, tier, seed, only=None):
    d = dict((m2, dd) for m2, k, dd in cpus())[mn]
    rng = random.Random("rt/%s/%s" % (mn, seed))
    K = 1 if tier == "quick" else 6
    fails = []
    samples = []
    n = 0
    distinct = set()
    budget = time.time() + (100 if tier == "quick" else 1500)
    for mode in range(len(d.specs)):
        L = corpus(mn, d, mode, K, rng, 60 if tier == "quick" else 600)
        if mn in X86 and tier == "quick":
            L = rng.sample(L, min(len(L), 500))
        if mn in X86 and prop == "C17":
            L = L + size_variants(mn, d, mode, seed)
        if only is not None and "block" in only:
            # replay of a history finding: the same corpus, the same history
            if only.get("mode") == mode:
                with Forced(d, mode):
                    hn, hf = check_history(mn, d, mode, L, seed, nblocks=15 if tier == "quick" else 40)
                n += hn
                fails += [(dict(i_, seed=seed), dt) for i_, dt in hf if i_["sig"] == only["sig"]]
            continue
        if only is not None:
            if only.get("mode") != mode:
                continue
            L = [bytes.fromhex(only["bytes"])] + ([bytes.fromhex(x) for x in only.get("history", [])])
        with Forced(d, mode):
            if prop == "C11":
                base = {}
                for b in L:
                    base[b] = decode(d, b)[:2]
                for order in (list(reversed(L)), rng.sample(L, len(L))):
                    hist = []
                    for b in order:
                        r = decode(d, b)[:2]
                        n += 1
                        if r != base[b]:
                            fails.append(({"cpu": mn, "mode": mode, "bytes": b.hex(), "history": [x.hex() for x in hist[-3:]], "sig": "order-dependent"},
                                          "decode(%s) gives %s after %s but %s in the first pass" % (b.hex(), r, [x.hex() for x in hist[-3:]], base[b])))
                        hist.append(b)
                distinct |= set(L)
                continue
            objs, internals = shared_objects(mn) if prop == "C10" else ({}, None)
            cpu_mod = importlib.import_module(mn)
            for b in L:
                if time.time() > budget:
                    break
                n += 1
                inp = {"cpu": mn, "mode": mode, "bytes": b.hex()}
                if prop == "C10":
                    before = fingerprint(objs, internals)
                st, desc, i = decode(d, b)
                if st == "raise":
                    if prop == "C17":
                        fails.append((dict(inp, sig="decode:" + desc), "decode raised %s" % desc))
                    continue
                if i is None:
                    continue
                distinct.add(desc[1])
                if len(samples) < 3:
                    samples.append({"bytes": b.hex(), "instruction": "%s" % (desc,)})
                if prop == "C17":
                    bad = check_wellformed(i, desc, importlib.import_module(mn))
                    for kind, detail in bad:
                        fails.append((dict(inp, sig=kind), "%s %s: %s" % (desc[1], b.hex(), detail)))
                elif prop == "C05":
                    for kind, detail in check_prefix(d, b, i, desc, rng):
                        fails.append((dict(inp, sig=kind), "%s %s: %s" % (desc[1], b.hex(), detail)))
                elif prop == "C10":
                    try:
                        str(i)
                        i(mapper())
                    except Exception:
                        pass
                    after = fingerprint(objs, internals)
                    if after != before:
                        ch = sorted(k for k in after if after[k] != before.get(k))
                        what = "; ".join("%s: %s -> %s" % (k, before.get(k), after[k]) for k in ch[:3])
                        kinds = sorted(set("internals" if c == "<internals>" else "regtype" if c == "<regtype.cur>" else "sign-flag" for c in ch))
                        fails.append((dict(inp, sig="shared:%s:%s" % (desc[1], "+".join(kinds))), "%s %s changed shared objects: %s" % (desc[1], b.hex(), what)))
                        # restore, so that each instruction is judged on its own
                        for k in ch:
                            if k in objs:
                                objs[k].sf = before[k][1]
                    # the same frame condition for expression nodes that belong to ANOTHER map: the
                    # instruction is applied to a state whose registers hold (k_r + 1); those nodes
                    # (held here, as a map computed earlier would hold them) keep their sign flags
                    held = []
                    S = mapper()
                    for r in _registers(cpu_mod):
                        x = E.reg("k_" + r.ref, r.size)
                        node = x + 1
                        held += [x, node]
                        S[r] = node
                    snap_sf = [y.sf for y in held]
                    try:
                        i(S)
                    except Exception:
                        pass
                    if [y.sf for y in held] != snap_sf:
                        bad_ = [str(y) for y, s0 in zip(held, snap_sf) if y.sf != s0]
                        fails.append((dict(inp, sig="shared:%s:stored-sign-flag" % desc[1]), "%s %s changed the sign flag of expression nodes stored in the map it was applied to: %s" % (desc[1], b.hex(), bad_[:3])))
                    for k, v in objs.items():
                        v.sf = before[k][1]
            if prop == "C10" and only is None:
                saved = dict((k, v.sf) for k, v in objs.items())
                hn, hf = check_history(mn, d, mode, L, seed, nblocks=15 if tier == "quick" else 40)
                n += hn
                fails += [(dict(i_, seed=seed), dt) for i_, dt in hf]
                for k, v in objs.items():
                    v.sf = saved[k]
    return n, fails, samples, len(distinct)


class Slow(BaseException):
    pass


def limited(secs, fn):
    "fn() under an alarm (amoco catches Exception in places: the signal raises a BaseException)"
    import signal

    def _alarm(signum, frame):
        raise Slow()
    old = signal.signal(signal.SIGALRM, _alarm)
    signal.alarm(secs)
    try:
        return fn()
    finally:
        signal.alarm(0)
        signal.signal(signal.SIGALRM, old)


def _nodes(e, out, depth=0):
    "every sub-expression object of e (the objects themselves)"
    if not isinstance(e, E.exp) or depth > 40:
        return out
    out.append(e)
    if e._is_slc:
        _nodes(e.x, out, depth + 1)
    elif e._is_cmp:
        for p in e.parts.values():
            _nodes(p, out, depth + 1)
    elif e._is_eqn:
        if getattr(e, "l", None) is not None:
            _nodes(e.l, out, depth + 1)
        _nodes(e.r, out, depth + 1)
    elif e._is_tst:
        for x in (e.tst, e.l, e.r):
            _nodes(x, out, depth + 1)
    elif e._is_mem:
        _nodes(e.a, out, depth + 1)
        for l, v in e.mods:
            _nodes(l, out, depth + 1)
            _nodes(v, out, depth + 1)
    elif e._is_ptr:
        _nodes(e.base, out, depth + 1)
    elif e._is_vec:
        for x in e.l:
            _nodes(x, out, depth + 1)
    return out


def check_history(mn, d, mode, L, seed, nblocks=15):
    """C10: the map of a block denotes the same function whatever was analysed before or after.
    Blocks of three executable instructions; maps are built, printed and applied to a seeded
    constant state; then a history runs (other maps composed with them, merged, the merges
    composed again, every instruction executed on scratch maps); afterwards the SAME map objects
    must print and evaluate as before, and maps rebuilt from the same instructions must print
    the same."""
    from amoco.cas.mapper import merge
    cpu = importlib.import_module(mn)
    rng = random.Random("history/%s/%s/%s" % (mn, mode, seed))
    hard = time.time() + 4 * nblocks + 30       # seconds for everything, observations included
    deadline = time.time() + nblocks            # seconds for the history itself (the observations are not cut)
    instrs = []
    for b in rng.sample(L, len(L)):         # spread over the whole corpus (every specification has entries in L)
        st, desc, i = decode(d, b)
        if st != "ok" or i is None:
            continue
        try:
            i(mapper())
            str(i)
        except Exception:
            continue
        instrs.append((b, i))
        if len(instrs) >= nblocks * 3:
            break
    blocks = [instrs[k:k + 3] for k in range(0, len(instrs) - 2, 3)]
    regs = _registers(cpu)
    vals = dict((r.ref, rng.getrandbits(r.size)) for r in regs)

    def state():
        S = mapper()
        for r in regs:
            S[r] = E.cst(vals[r.ref], r.size)
        return S

    # the sign flags of the shared register objects are the first part's subject (per-instruction
    # frame contract, known findings by mnemonic): they are put back before every observation, so
    # that this part decides the OTHER channels (stored expressions modified in place, module state)
    # ... the same for the sign flags of the nodes STORED in the observed maps (first part:
    # 'stored-sign-flag' signatures, by mnemonic)
    objs, _int = shared_objects(mn)
    sf0 = dict((k, v.sf) for k, v in objs.items())
    stored = []
    seen_ids = set()

    def remember(m):
        for loc, v in m:
            for x in (loc, v):
                for node in _nodes(x, []):
                    if id(node) not in seen_ids:        # the FIRST observation of a node is the reference
                        seen_ids.add(id(node))
                        stored.append((node, node.sf))

    def restore():
        for k, v in objs.items():
            v.sf = sf0[k]
        for node, sf in stored:
            node.sf = sf

    def build(blk):
        restore()
        try:
            return mapper([d(b) for b, _ in blk])
        except Exception:
            return None

    def const_of(x):
        if x._is_cst:
            return int(x.v) % (1 << x.size)
        if x._is_cmp:
            total = 0
            for (lo, hi) in sorted(x.parts.keys()):
                v = const_of(x.parts[(lo, hi)])
                if v is None:
                    return None
                total += (v % (1 << (hi - lo))) << lo
            return total
        if x._is_vec:
            alts = [const_of(y) for y in x.l]
            return None if any(a is None or isinstance(a, str) for a in alts) else "alternatives %s" % sorted(alts)
        return None

    def fp(m):
        """the function the map denotes, observed on the seeded constant state: the value of every
        register and of every memory location written at a constant address (None where the result
        is not a constant, e.g. a load from unknown memory); the TEXT of a map is not compared, a
        stored expression may be restructured in place without changing what it denotes"""
        restore()
        import signal

        class _Slow(BaseException):
            pass

        def _alarm(signum, frame):
            raise _Slow()
        old = signal.signal(signal.SIGALRM, _alarm)
        signal.alarm(8)
        try:
            R = state() >> m
            out = [(r.ref, const_of(R(r))) for r in regs]
            for loc, v in R:
                if loc._is_ptr and loc.base._is_cst:
                    out.append((str(loc), const_of(R(E.mem(loc, v.size)))))
            return ("values", out)
        except _Slow:
            return None          # no observation within 8 s: nothing is compared for this map
        except Exception as e:
            return ("evaluation raised %s" % sig(e), [])
        finally:
            signal.alarm(0)
            signal.signal(signal.SIGALRM, old)
    def snap():
        return repr(sorted(getattr(cpu, "internals", {}).items())) if isinstance(getattr(cpu, "internals", None), dict) else None
    maps = []
    for blk in blocks:
        s0 = snap()
        m = build(blk)
        if m is not None:
            remember(m)
            maps.append((blk, m, fp(m), s0))
    fails = []
    n = 0
    # --- the history
    merged = []
    for _ in range(min(2 * nblocks, len(maps) * 2)):
        (b1, m1, f1, _s1), (b2, m2, f2, _s2) = rng.choice(maps), rng.choice(maps)
        if time.time() > deadline:
            break
        try:
            limited(8, lambda: m1 >> m2)
            if len(merged) < max(5, nblocks // 3):
                M = limited(8, lambda: merge(m1, m2))
                remember(M)
                merged.append((b1, b2, M, fp(M)))
        except (Slow, Exception):
            continue
    for (b1, b2, M, f) in merged:
        (b3, m3, f3, _s3) = rng.choice(maps)
        if time.time() > deadline:
            break
        try:
            limited(8, lambda: M >> m3)
            limited(8, lambda: m3 >> M)
        except (Slow, Exception):
            pass
    for b, i in instrs:
        try:
            limited(8, lambda: i(state()))
        except (Slow, Exception):
            pass
    # --- afterwards
    for blk, m, before, internals0 in maps:
        if time.time() > hard:
            break           # observations not made are not counted
        n += 1
        after = fp(m)
        names = "+".join(i.mnemonic for _, i in blk)
        inp = {"cpu": mn, "mode": mode, "block": [b.hex() for b, _ in blk]}
        if before is None or after is None:
            n -= 1
            continue
        if after != before:
            fails.append((dict(inp, sig="history:map-changed:%s" % names), "the map of block %s evaluates differently after other maps were composed/merged/executed: %s" % (names, _difference(before, after))))
            continue
        now = snap()
        m2 = build(blk)
        f2 = fp(m2) if m2 is not None else None
        if f2 is not None and f2 != before:
            if now != internals0:
                # the cause is visible: an executed instruction wrote the module's 'internals' (instruction-set / endianness state)
                fails.append((dict(inp, sig="history:rebuild-differs:internals-changed"), "the map of block %s built after the history differs from the one built first: the history changed %s.internals from %s to %s" % (names, mn, internals0, now)))
            else:
                fails.append((dict(inp, sig="history:rebuild-differs:%s" % names), "the map of block %s built after the history differs from the one built first: %s" % (names, _difference(before, f2))))
    for (b1, b2, M, before) in merged:
        if time.time() > hard:
            break
        n += 1
        after = fp(M)
        if before is None or after is None:
            n -= 1
            continue
        if after != before:
            names = "+".join(i.mnemonic for _, i in b1) + "|" + "+".join(i.mnemonic for _, i in b2)
            fails.append(({"cpu": mn, "mode": mode, "block": [b.hex() for b, _ in b1] + ["|"] + [b.hex() for b, _ in b2], "sig": "history:merged-map-changed:%s" % names},
                          "the merge of the maps of %s evaluates differently after being composed with another map: %s" % (names, _difference(before, after))))
    return n, fails


def _difference(before, after):
    if before[0] != after[0]:
        return "%s -> %s" % (before[0], after[0])
    b, a = dict(before[1]), dict(after[1])
    diff = ["%s: %s -> %s" % (k, hex(b[k]) if isinstance(b.get(k), int) else b.get(k), hex(a[k]) if isinstance(a.get(k), int) else a.get(k)) for k in sorted(set(a) | set(b)) if a.get(k) != b.get(k)]
    return "; ".join(diff[:4])


def check_wellformed(i, desc, cpu=None):
    bad = []
    seen = set()
    if not isinstance(i.mnemonic, str) or not i.mnemonic:
        bad.append(("wf:mnemonic", "mnemonic is %r" % (i.mnemonic,)))
    if i.type not in AC.INSTRUCTION_TYPES:
        bad.append(("wf:type", "type is %r" % (i.type,)))
    if not i.length >= 1:
        bad.append(("wf:length", "length %d" % i.length))
    if not isinstance(i.operands, list):
        bad.append(("wf:operands", "operands is %r" % type(i.operands)))
    try:
        s = str(i)
        t = i.toks()
        if not isinstance(s, str):
            bad.append(("wf:str", "str() returned %r" % type(s)))
    except Exception as e:
        bad.append(("str:" + sig_arch(e), "formatting raised %s (in %s): %s" % (sig(e), sig_arch(e), str(e)[:80])))
        seen.add(sig(e))
        seen.add(sig_arch(e))
        s = None
    try:
        j = pickle.loads(pickle.dumps(i))
        if bytes(j.bytes) != bytes(i.bytes) or j.mnemonic != i.mnemonic or (s is not None and str(j) != s):
            bad.append(("pickle:differs", "pickle round trip differs"))
    except Exception as e:
        bad.append(("pickle:" + sig(e), "pickle raised %s: %s" % (sig(e), str(e)[:80])))
    try:
        i(mapper())
    except Exception as e:
        bad.append(("exec:" + sig_arch(e), "instruction(mapper()) raised %s (in %s): %s" % (sig(e), sig_arch(e), str(e)[:80])))
        seen.add(sig(e))
        seen.add(sig_arch(e))
    if cpu is None:
        return bad
    # the same instruction located in a program (as the sweeps and the emulator do) ...
    saved = i.address
    try:
        for a in (0x1000, 0xFFF0):
            i.address = E.cst(a, _pcsize(cpu))
            i.misc.pop("to", None)
            try:
                str(i)
            except Exception as e:
                if sig_arch(e) in seen:       # the failure already reported without an address
                    break
                seen.add(sig_arch(e))
                bad.append(("str@addr:" + sig_arch(e), "formatting with address %#x raised %s: %s" % (a, sig(e), str(e)[:80])))
                break
        # ... and applied to states in which every register holds a constant (all zero, all ones, seeded)
        for name, val in (("zeros", lambda r: 0), ("ones", lambda r: (1 << r.size) - 1), ("seeded", lambda r: krng.getrandbits(r.size))):
            krng = random.Random("state/%s" % desc[1])
            S = mapper()
            for r in _registers(cpu):
                S[r] = E.cst(val(r), r.size)
            try:
                i(S)
            except Exception as e:
                if sig(e) in seen:       # the failure already reported on the empty map / another state
                    continue
                seen.add(sig(e))
                bad.append(("exec@state:" + sig_arch(e), "instruction applied to a state with %s registers raised %s: %s" % (name, sig(e), str(e)[:80])))
    finally:
        i.address = saved
        i.misc.pop("to", None)
    return bad


_REGS = {}


def _registers(cpu):
    if cpu not in _REGS:
        out = []
        for r in getattr(cpu, "registers", []):
            if isinstance(r, E.exp) and r._is_reg and not r._is_slc and not r._is_ext and r.size and r.size <= 64:
                out.append(r)
        _REGS[cpu] = out
    return _REGS[cpu]


def _pcsize(cpu):
    try:
        return cpu.PC().size
    except Exception:
        return 32


def check_prefix(d, b, i, desc, rng):
    bad = []
    n = i.length
    if not (1 <= n <= len(b)):
        bad.append(("len:range", "length %d for %d bytes supplied" % (n, len(b))))
        return bad
    if bytes(i.bytes) != b[:n]:
        bad.append(("len:bytes", "instruction bytes %s are not the first %d bytes" % (bytes(i.bytes).hex(), n)))
        return bad
    variants = [("exact", b[:n])] + [("tail", b[:n] + bytes(rng.getrandbits(8) for _ in range(rng.randint(1, 6)))) for _ in range(2)]
    if n <= d.maxlen:
        variants.append(("window", (b + bytes(rng.getrandbits(8) for _ in range(d.maxlen)))[:d.maxlen]))
    for name, v in variants:
        st, dv, _ = decode(d, v)
        if st == "raise" or dv != desc:
            bad.append(("same:" + name, "decode(%s) [%s] gives %s instead of %s" % (v.hex(), name, dv, desc)))
    return bad


class _RtCpu(_Concrete):
    level = "Brt"

    def __init__(self, prop, mn, tier):
        self.prop, self.mn, self.tier = prop, mn, tier
        _Concrete.__init__(self, "RT/%s/%s" % (prop, ".".join(mn.split(".")[2:])), [prop],
                           ["%s:disassemble" % mn, "amoco.arch.core:disassembler.__call__", "setup functions / formatters / semantics of %s" % mn],
                           None, ("contracts.rt:rt_cpu", {"prop": prop, "mn": mn, "tier": tier}))

    def run_rt(self, seed):
        t0 = time.time()
        n, fails, samples, distinct = _run(self.prop, self.mn, self.tier, seed)
        # one failure per signature is enough for the report
        seen = {}
        for inp, detail in fails:
            seen.setdefault(inp["sig"], (inp, detail))
        return {"id": self.id, "props": self.props, "level": "Brt", "fuc": self.fuc, "kind": "rt",
                "verdict": "proved" if not fails else "refuted", "evaluations": n, "distinct_nontrivial": distinct,
                "failures": [{"inputs": i, "detail": dt, "confirmed": True} for (i, dt) in seen.values()][:60],
                "failure_count": len(fails),
                "samples": samples,
                "rule": "per shipped specification: byte strings matching its fixed bits with seeded free bits, tails and x86 prefixes, plus random strings; distinct = different mnemonics decoded (C11: different inputs); every counted case decoded to an instruction or exercised the decoder on matching fixed bits",
                "paths": 0, "vcs": 0, "discharged": 0, "solver_s": 0, "backend": {}, "ref": self.ref(), "expect": "proved", "bound": "concrete inputs",
                "wall_s": round(time.time() - t0, 2)}

    def replay_rt(self, inputs):
        n, fails, samples, distinct = _run(self.prop, self.mn, self.tier, inputs.get("seed", 0), only=inputs)
        for inp, detail in fails:
            if inp.get("sig") == inputs.get("sig") or True:
                return "fail", detail
        return "ok", ""


def rt_cpu(prop, mn, tier):
    return _RtCpu(prop, mn, tier)


def obligations(prop, tier, seed):
    obs = []
    for mn, k, d in cpus():
        o = rt_cpu(prop, mn, tier)
        o.weight = 5 + sum(len(flat(t)) for t in d.specs) // 40
        obs.append(o)
    return obs
