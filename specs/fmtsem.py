"""Independent interpreter of amoco's instruction-format language, written from the ispec
docstring (arch/core.py) -- own tokenizer, no pyparsing, no Bits, no code of amoco.

  spec   := LEN [dir] '[' FORMAT ']' ['+' | '&']
  LEN    := integer (multiple of 8) | '*'
  dir    := '<' (default: directives run from MSB, bit LEN-1, down to LSB) | '>' (LSB up)
  FORMAT := ( '-' | '0' | '1' | '{hh}' | [type] SYMBOL ['(' len|'*' ')'] )+
  type   := '.' attribute | '~' bit-vector | '#' string of 0/1 | '=' overlapping (ends at the
            current position, does not advance) ; none: integer keyword argument

fmtsem(fmt) -> Fmt(size, nbits, direction, mask, fix, fields, pfx)
  nbits : number of bits of the fixed-size part (LEN, or the sum of the directive lengths
          when LEN is '*'); the fixed part occupies bits [0, nbits) of the instruction word
  fields: name -> (kind, sta, sto) ; the value is bits [sta, sto) of the word (bit sta = LSB);
          sto is None for a '(*)' tail: every bit from sta up, including all trailing bytes
  kind  : 'int' | 'bits' | 'str' ; attr: True when delivered as instruction attribute
"""
import re
from collections import namedtuple

Fmt = namedtuple("Fmt", "size nbits direction mask fix fields pfx")
Field = namedtuple("Field", "kind attr sta sto")

_TOK = re.compile(r"\s*(?:(\{[0-9a-fA-F]{2}\})|([01-])|([.~#=]?)([A-Za-z_][A-Za-z0-9_]*)(?:\(\s*(\*|[0-9]+)\s*\))?)")


class FormatError(Exception):
    pass


def ia32_macro(fmt):
    "the '/r' and '/digit' ModRM shorthands of ispec_ia32 (Intel manual notation)"
    n = fmt.find("/")
    if 0 < n < len(fmt) - 1:
        c = fmt[n + 1]
        if c == "r":
            return fmt.replace("/r", "RM(3) REG(3) Mod(2) ~data(*)")
        d = int(c, 8)
        # /digit: the reg field must equal digit; written in '>' order (LSB first)
        bits = "".join(str((d >> k) & 1) for k in range(3))
        return fmt.replace("/%s" % c, "RM(3) %s Mod(2) ~data(*)" % bits)
    return fmt


def tokenize(body):
    toks = []
    pos = 0
    body = body.strip()
    while pos < len(body):
        m = _TOK.match(body, pos)
        if not m or m.end() == pos:
            raise FormatError("cannot tokenize %r at %d" % (body, pos))
        pos = m.end()
        if m.group(1):
            toks.append(("byte", int(m.group(1)[1:3], 16)))
        elif m.group(2):
            toks.append(("bit", m.group(2)))
        else:
            opt, sym, loc = m.group(3), m.group(4), m.group(5)
            if loc is None:
                loc = 1
            elif loc != "*":
                loc = int(loc)
            toks.append(("field", opt, sym, loc))
    return toks


def fmtsem(fmt):
    m = re.match(r"\s*(\*|[0-9]+)\s*([<>]?)\s*\[(.*)\]\s*([+&]?)\s*$", fmt, re.S)
    if not m:
        raise FormatError(fmt)
    size = m.group(1)
    direction = m.group(2) or "<"
    toks = tokenize(m.group(3))
    pfx = {"+": True, "&": "xdata", "": False}[m.group(4)]
    nb = 0
    for t in toks:
        if t[0] == "bit":
            nb += 1
        elif t[0] == "byte":
            nb += 8
        elif t[3] != "*" and t[1] != "=":
            nb += t[3]
    if size == "*":
        size = 0
        nbits = nb
    else:
        size = int(size)
        nbits = size
        has_tail = any(t[0] == "field" and t[3] == "*" for t in toks)
        if nb != size and not has_tail:
            raise FormatError("directives cover %d bits, LEN is %d: %s" % (nb, size, fmt))
    mask = fix = 0
    fields = {}
    if direction == "<":
        cur = nbits
    else:
        cur = 0
    for t in toks:
        if t[0] == "bit":
            pos = cur - 1 if direction == "<" else cur
            if t[1] in "01":
                mask |= 1 << pos
                fix |= int(t[1]) << pos
            cur += -1 if direction == "<" else 1
        elif t[0] == "byte":
            lo = cur - 8 if direction == "<" else cur
            mask |= 0xFF << lo
            fix |= t[1] << lo
            cur += -8 if direction == "<" else 8
        else:
            _, opt, sym, loc = t
            if loc == "*":
                if direction == "<":
                    # written first (most significant end): everything above the fixed part
                    sta, sto = nbits, None
                else:
                    sta, sto = cur, None
                    cur = nbits
            elif opt == "=":
                if direction == "<":
                    sta, sto = cur, cur + loc
                else:
                    sta, sto = cur - loc, cur
            else:
                if direction == "<":
                    sta, sto = cur - loc, cur
                    cur -= loc
                else:
                    sta, sto = cur, cur + loc
                    cur += loc
            kind = "bits" if opt == "~" else "str" if opt == "#" else "int"
            if sym in fields:
                raise FormatError("symbol %s redefined" % sym)
            fields[sym] = Field(kind, opt == ".", sta, sto)
    return Fmt(size, nbits, direction, mask, fix, fields, pfx)


def accepts(f, data, endian=1):
    "does the byte string match the fixed bits (plain python ints)?"
    blen = f.nbits // 8
    if len(data) < blen:
        return False
    word = int.from_bytes(data[:blen], "little" if endian == 1 else "big")
    return (word & f.mask) == f.fix
