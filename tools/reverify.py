"""development-time tool: re-verifies (symbolically, all inputs) the obligations named by replay files
on the current /repo tree.   usage: ./vf py tools/reverify.py replays/C01/*.json"""
import ast, json, sys
from symx import shims
shims.install()
from symx.oblig import rebuild, verify

for f in sys.argv[1:]:
    d = json.load(open(f))
    ref = d["ref"]
    if isinstance(ref, str):
        ref = ast.literal_eval(ref)
    ob = rebuild(ref)
    ob.tag = ref.get("tag") or d.get("property")
    r = verify(ob)
    print("%-10s %s %s" % (r["verdict"], ob.id[:110], (r.get("clause") or r.get("reason") or "")[:120]))
