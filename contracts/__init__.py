"""Registry: property id -> contract modules serving it + evidence / manifest metadata."""

_TB = ["z3 5.1 (in-process, wheel)", "cvc5 1.0.3 CLI (second opinion on z3 'unknown')",
       "CPython 3.12 data-model dispatch (operators, truth tests, __index__, __format__ reach the proxies)",
       "symx engine (self-test: every proxy operator cross-checked against CPython on every run of ./vf selftest)"]

_AS_COMMON = [
    "amoco is verified as the test-suite runs it: without its optional z3 back end (amoco.cas.smt inactive)",
    "Python integers are mathematical (unbounded): int mode is exact; bv mode checks on every operation that the tracked interval fits the working width and gives up (undecided) otherwise",
    "amoco hashes/compares expressions by their text; str hashes are assumed collision free (amoco assumes the same)",
]

REGISTRY = {
    "C01": {
        "modules": ["contracts.cas_kernel", "contracts.cas_trees"],
        "category": "other",
        "technique": "contract-based deductive verification of the real code: symbolic execution of /repo's functions on z3-backed integer proxies, one VC per contract clause and path (z3, cvc5); proof-level for the constant kernel at all widths, bounded (tree depth) for rewrite rules",
        "level_text": "Constant kernel (every cst operator, ror/rol/ltu/geu, value, slicing, extensions): contracts discharged for ALL operand values at the widths of the tier (quick: 14 widths 1..128, thorough: every width 1..128) - proof level, reported separately. Rewrite/eval rules (oper, simplify, eqn helpers, comp, slc, tst, extend, mapper eval): bounded symbolic verification - all register valuations, recipes enumerated to depth 3 over 6 (quick) / 11 (thorough) widths. The check's level is that of its weakest deciding component (bounded), hence 'other'.",
        "level_note": "trusted: z3/cvc5, CPython dispatch, the symx engine and shims, specs/refsem.py and specs/den.py (reference semantics and independent walker). Not covered: trees deeper than 3; constants outside the boundary set; signed division above 9 bits is attempted with a non-linear encoding and only counted when decided; ordered comparisons / division / widening multiply only over operands whose signedness is declared by registers, constants and + - * (bitwise results are 'unsigned' by amoco's own convention).",
        "design_ref": "DESIGN.md sections 2, 4 (C01)",
        "explanation": "contract-based verification of the real code (symx): proof-level obligations for the constant kernel, bounded symbolic verification (all valuations, trees up to depth 3) for the rewrite and evaluation rules; see proof_level and bounded_symbolic",
        "trusted_base": _TB + ["specs/refsem.py (reference bit-vector semantics)", "specs/den.py (independent denotation walker)"],
        "assumptions": _AS_COMMON,
    },
    "C12": {
        "modules": ["contracts.cas_kernel", "contracts.cas_trees"],
        "category": "other",
        "technique": "contract-based deductive verification of the real code: width clause of every kernel/tree contract plus the comp tiling invariant, discharged on symbolic inputs (z3)",
        "level_text": "Same obligations as C01 restricted to the width clauses (result.size == width the construction dictates; every comp reachable in a result tiles [0,size) and smask names the covering part; slices in range), with independently seeded recipes. Kernel: all values, listed widths (proof level). Trees: bounded by depth 3.",
        "level_note": "as C01; widths are concrete on every path, so a width clause holds for all valuations of the path.",
        "design_ref": "DESIGN.md section 4 (C12/C13)",
        "explanation": "width clauses of the C01 contracts (kernel: proof level; trees: bounded symbolic), recipes seeded independently of C01",
        "trusted_base": _TB + ["specs/den.py check_widths / comp tiling checker"],
        "assumptions": _AS_COMMON,
    },
    "C13": {
        "modules": ["contracts.cas_kernel", "contracts.cas_trees", "contracts.values"],
        "category": "other",
        "technique": "contract-based deductive verification of the real code: frame clause (every operand keeps width and denotation) of every kernel/tree contract, discharged on symbolic inputs (z3)",
        "level_text": "Frame clauses of the C01 contracts: every expression the API handed out while building (every operand) keeps its width and, for ALL valuations, its denotation (independent walker) after the parent was built, simplified (with/without bitslice/widening) or evaluated in a map. Kernel operands: (size, v) unchanged. Bounded by tree depth 3. Map histories (bounded symbolic): every value read from a map through overlapping sub-registers keeps its width and denotation after <= 4 later writes/reads (all values symbolic). Pickle round trip of expressions, mappers and memory maps: run-time contract on generated objects (concrete, not counted as proved).",
        "level_note": "as C01. The sign flag of a constant is not part of its value; re-flagging of shared registers is covered by C10.",
        "design_ref": "DESIGN.md section 4 (C12/C13)",
        "explanation": "frame clauses (operands unchanged: width and denotation for all valuations) of the C01 contracts; bounded symbolic verification",
        "trusted_base": _TB + ["specs/den.py"],
        "assumptions": _AS_COMMON,
    },
}

REGISTRY["C03"] = {
    "modules": ["contracts.decoder"],
    "category": "proof",
    "technique": "contract-based deductive verification of the real code: ispec.decode executed on fully symbolic instruction bytes for every shipped specification, postconditions from an independent interpreter of the format grammar, VCs discharged by z3; buildspec compared exhaustively over the finite set of shipped formats",
    "level_text": "For every shipped specification (all importable cpu modules) the contract of ispec.decode is discharged for ALL instruction words and trailing bytes (symbolic bytes through the real Bits loader): accept iff fixed bits match, every symbol receives exactly the bits the documented grammar assigns to it in the documented form, instruction.bytes = consumed bytes. buildspec (mask/fix/size/prefix flag/symbol set) and the ia32 '/r' '/digit' macro are compared with the independent interpreter for every shipped format (finite, exhaustive). Quick tier: each distinct format at the ISA's endianness with one trailing byte, other endianness/tails on a seeded third; thorough: every combination.",
    "level_note": "trusted: z3, CPython dispatch, symx engine and shims (isinstance/bytes/int in amoco.arch.core and crysp.bits), specs/fmtsem.py (written from the ispec docstring). Hooks and preconditions are replaced by a recorder (their behaviour is C17/C06's subject). Synthetic formats beyond the shipped ones: not covered by this check. Three cpu modules fail to import on the pinned tree (avr, ppc32 e200, sh4) and are not covered.",
    "design_ref": "DESIGN.md section 4 (C03)",
    "explanation": "contracts of ispec.buildspec/decode discharged for every shipped specification on symbolic instruction bytes",
    "trusted_base": _TB + ["specs/fmtsem.py (independent interpreter of the format grammar)", "recorder hook in place of the specification's setup function"],
    "assumptions": _AS_COMMON + ["cpu modules that fail to import on this tree are out of scope: amoco.arch.avr.cpu, amoco.arch.ppc32.cpu_e200, amoco.arch.superh.cpu_sh4"],
}

REGISTRY["C04"] = {
    "modules": ["contracts.disasm"],
    "category": "proof",
    "technique": "contract-based deductive verification of the real code: disassembler.__call__ (key computation, justification, tree walk, leaf scan, real ispec.decode) executed on fully symbolic byte strings for every cpu module and mode; postcondition 'winner = first accepting specification of the most-constrained-first scan' discharged by z3 on every path; routing invariant of every tree node checked exhaustively",
    "level_text": "For every importable cpu module and decode mode and every byte-string length of the tier, the real __call__ runs on symbolic bytes; on every path the returned specification is proved to be the first one of the stable most-constrained-first order (rebuilt from the format strings by the independent grammar interpreter) that accepts the bytes, or None when none does. The routing invariant (each specification's fixed bits imply its path; leaves partition the specifications in scan order) is checked on every node of every tree actually built.",
    "level_note": "trusted: z3, CPython dispatch, symx engine/shims, specs/fmtsem.py. Setup functions and preconditions are replaced by an accepting recorder (same function of the same bytes on both routes; specifications outside the reached leaf fail their fixed bits before any hook runs - that is the routing invariant). Recursion after a prefix specification is cut at depth 1 and replaced by the same contract (induction on consumed bytes). Tree dict nodes are wrapped for symbolic keys. Quick tier: lengths {0,1,2,maxlen,maxlen+1} (x86/x64/dwarf/wasm/eBPF: {0..4, maxlen}); thorough: 0..maxlen+1.",
    "design_ref": "DESIGN.md section 4 (C04)",
    "explanation": "contract of disassembler.__call__ discharged on symbolic byte strings for every shipped ISA/mode",
    "trusted_base": _TB + ["specs/fmtsem.py", "accepting recorder in place of setup functions and preconditions", "SymKeyDict wrapper of the tree's dict nodes", "recursion after a prefix cut at depth 1 (induction)"],
    "assumptions": _AS_COMMON + ["cpu modules that fail to import on this tree are out of scope (avr, ppc32 e200, sh4)"],
}

REGISTRY["C11"] = {
    "modules": ["contracts.disasm", "contracts.rt"],
    "category": "other",
    "technique": "contract-based deductive verification of the real code: ghost invariant 'no pending prefix instruction at any exit of disassembler.__call__' discharged on symbolic byte strings with every setup function replaced by a stub whose outcome is a symbolic choice (returns / InstructionError / DecodeError / any other exception); ispec.decode rollback contract on symbolic bytes",
    "level_text": "Bounded symbolic verification: for every cpu module/mode, all byte strings of the listed lengths and ALL outcomes of every setup function, the pending-instruction slot is empty at every normal and exceptional exit of a top-level call and the returned instruction's bytes are a prefix of this call's bytes; prefix chains are cut after the first prefix (the recursive call is the contract itself). ispec.decode's rollback on InstructionError restores the pending instruction's bytes and attributes (proof level per specification).",
    "level_note": "trusted as C04. Call histories are not enumerated: the invariant makes every call start from the same state (the only state the disassembler keeps between calls is the pending slot), which is the induction the property needs; global decode state outside the disassembler object (env.internals, regtype) is C10's subject.",
    "design_ref": "DESIGN.md section 4 (C11)",
    "explanation": "ghost invariant (pending slot empty at every exit, all hook outcomes) on the real __call__, bounded by cutting prefix recursion at depth 1",
    "trusted_base": _TB + ["specs/fmtsem.py", "hook stubs with symbolic outcome", "SymKeyDict wrapper", "recursion cut (induction)"],
    "assumptions": _AS_COMMON,
}

REGISTRY["C08"] = {
    "modules": ["contracts.memory"],
    "category": "other",
    "technique": "contract-based deductive verification of the real code: MemoryZone/MemoryMap operations executed on symbolic addresses and payloads (z3 Int proxies), abstract view addr -> byte as ghost state, postcondition 'every read returns the last covering write' discharged on every path (every overlap/ordering configuration is a path)",
    "level_text": "Bounded symbolic verification: for every enumerated history shape (<= 3 writes of bytes / constants / registers / compositions, sizes 1..8, both endiannesses, interleaved copy/restruct/shift, concrete and symbolic zones, merge) ALL write addresses, read addresses, payload bytes and register values are symbolic; the real insertion algorithm enumerates every overlap configuration by itself and each path's read is proved equal, byte for byte, to the last-write-wins oracle built from the history; the zone's representation invariant is proved after every operation.",
    "level_note": "trusted: z3, CPython dispatch (bisect on proxies), symx engine/shims, specs/den.py. Bounded by history length (3) and by the payload kinds listed; longer histories are not covered.",
    "design_ref": "DESIGN.md section 4 (C08)",
    "explanation": "bounded symbolic verification of the memory zone algorithm: all addresses/overlaps symbolic, histories up to 3 writes",
    "trusted_base": _TB + ["specs/den.py", "last-write-wins oracle in contracts/memory.py (built from the history)"],
    "assumptions": _AS_COMMON,
}

REGISTRY["C06"] = {
    "modules": ["contracts.riscv"],
    "category": "proof",
    "technique": "contract-based deductive verification of the real code: each RV32I/RV64I base opcode is decoded by the real disassembler and executed by the real i_XXX semantics on a map whose 31 registers, pc and touched memory bytes are symbolic; postcondition = reference interpreter written from the ISA manual; VCs discharged by z3",
    "level_text": "RISC-V half only. Per base opcode and per enumerated (rd, rs1, rs2) index triple (quick: coincidence patterns over {0,1,2,5,10,30,31}; thorough: all 32 indices), for ALL immediates, ALL register values, pc and memory bytes: every register, the next pc and the stored bytes after instruction(mapper) equal the reference interpreter. Loads/stores take their immediates from a boundary set (the memory operand's text needs a concrete displacement). The x86/x64 half of the property (the oracle is the physical processor) is not decided by this check.",
    "level_note": "trusted: z3, CPython dispatch, symx engine/shims, specs/rv_ref.py (written from the RISC-V unprivileged ISA manual), SymKeyDict wrapper of the decoder tree. Known findings (RV64I, recorded not repaired) are listed in known_findings.json. x86 half: not applicable to contracts (no specification of the processor in the sandbox).",
    "design_ref": "DESIGN.md section 4 (C06), section 5",
    "explanation": "RISC-V half: per-opcode contracts discharged for all states; x86 half not decided",
    "trusted_base": _TB + ["specs/rv_ref.py (reference interpreter from the ISA manual)", "SymKeyDict wrapper of the decoder tree"],
    "assumptions": _AS_COMMON + ["x86/x64 half of C06 is not covered (see not_applicable reasoning in DESIGN.md section 5)", "memory accesses are assumed not to wrap around the address space (address <= 2^XLEN - 16)"],
}

REGISTRY["C16"] = {
    "modules": ["contracts.structs"],
    "category": "other",
    "technique": "contract-based deductive verification of the real code: StructCore.size/offsets/offset_of/unpack and Field.align executed with stub fields of symbolic size against the C-ABI layout function; LEB128 encode/decode round trip for all |x| < 2^70 (z3); run-time contracts of the definition language against ctypes",
    "level_text": "Bounded symbolic: the layout functions are verified for ALL field sizes with <= 4 (quick) / 6 (thorough) fields and enumerated alignments, packed / natural / union; Field.align and the LEB128 round trip (encoder canonical and minimal, decoder ignores trailing bytes) are proof level for all offsets / all |x| < 2^70. Run-time contracts (concrete, never counted as proved): seeded structure definitions compared with ctypes for size, offsets, unpacked values and pack(unpack(data)).",
    "level_note": "trusted: z3, symx engine/shims, the C-ABI layout function in contracts/structs.py (cross-checked against ctypes on the generated definitions), ctypes/struct of CPython as the C reference. Not covered symbolically: nested definitions, bit fields, counted/bound/terminated variable-length fields (only through the run-time generator, which currently emits scalars and arrays).",
    "design_ref": "DESIGN.md section 4 (C16)",
    "explanation": "bounded symbolic verification of the struct layout functions (symbolic sizes, <= 6 fields), proof of LEB128 round trip, run-time contracts against ctypes",
    "trusted_base": _TB + ["C-ABI layout function (contracts/structs.py: cabi)", "ctypes (reference C layout)"],
    "assumptions": _AS_COMMON,
}

REGISTRY["C09"] = {
    "modules": ["contracts.mapper"],
    "category": "other",
    "technique": "contract-based deductive verification of the real code: load/store maps built with the mapper API are instantiated by amoco itself (S >> M) on SYMBOLIC pointer values, data and initial memory; postcondition = byte-level sequential execution (if-then-else chain over the stores), discharged by z3 on every path",
    "level_text": "Bounded symbolic verification: programs of <= 4 loads/stores through two pointer registers (offsets, sizes 1..8 bytes, both endiannesses, aliasing assumed or not, memory tracing on/off) are enumerated (8 fixed aliasing patterns + seeded programs); for each, ALL pointer values of a 17x17 window (every equal / overlapping / disjoint placement), all stored values and all initial memory bytes are symbolic. Each loaded value and the final memory must equal the byte-level execution; with no-aliasing on, for assignments where the pointers are >= 16 bytes apart.",
    "level_note": "trusted: z3, symx engine/shims, byte-level oracle in contracts/mapper.py. Route checked: amoco's own instantiation (rcompose, mem.eval replay of mods, zone arithmetic); the un-instantiated map with its mods list is not interpreted independently. Bounded by program length and by the pointer window.",
    "design_ref": "DESIGN.md section 4 (C09)",
    "explanation": "bounded symbolic verification of aliasing: all pointer placements symbolic, programs of <= 4 accesses",
    "trusted_base": _TB + ["byte-level sequential memory oracle (contracts/mapper.py: ByteMem)"],
    "assumptions": _AS_COMMON,
}

REGISTRY["C17"] = {
    "modules": ["contracts.rt"],
    "category": "exploration",
    "technique": "run-time contracts on the real decoders/formatters/semantics (sidecar, no /repo edit) evaluated on spec-driven generated inputs; bounded stand-in, not a proof",
    "level_text": "Bounded (concrete inputs): for every importable cpu module and mode, every shipped specification is exercised with byte strings matching its fixed bits (seeded free bits, tails, x86 prefixes) plus random strings; the contract 'decode returns or reports and never raises; the instruction is well formed; str/toks/pickle do not raise, also with the instruction's address set; applying it to the empty map and to states whose registers all hold constants (zeros, ones, seeded) does not raise' is evaluated on each (x86/x64: every specification also under an operand-size and an address-size prefix). Nothing is proved: the setup functions, formatters and semantics (several thousand Python functions over byte strings, pyparsing and struct) are outside the symbolic engine's reach.",
    "level_note": "a contract-based proof is not within reach for this property (see DESIGN.md section 5); the run-time contract is the bounded stand-in the brief allows, labelled bounded. Known findings are matched by (cpu, failure signature).",
    "design_ref": "DESIGN.md section 4 (C17)",
    "rule": "per shipped specification: byte strings matching its fixed bits (seeded free bits, tails, prefixes) plus random strings; distinct_nontrivial = number of different mnemonics decoded",
    "explanation": "run-time contracts on spec-driven generated inputs",
    "trusted_base": ["input generator contracts/rt.py (specs/fmtsem.py for the fixed bits)"],
    "assumptions": ["bounded: concrete inputs only, no proof"],
}

REGISTRY["C05"] = {
    "modules": ["contracts.decoder", "contracts.disasm", "contracts.rt"],
    "category": "other",
    "technique": "contract-based deductive verification of ispec.decode on symbolic bytes (instruction.bytes = the consumed prefix, every delivered argument a function of those bytes only) for every shipped specification; run-time contracts with the real setup functions for the variable-length ISAs",
    "level_text": "Proof-level part: for every shipped specification and ALL instruction words and trailing bytes, ispec.decode records exactly the first blen bytes and hands the setup function values that are terms over those bytes only (the C03 contract with symbolic tails). Bounded part (run-time contracts, concrete spec-driven inputs, all cpu modules with their real setup functions): i.bytes == b[:length], 1 <= length <= len(b), and decoding b[:length], b[:length]+t, and the maxlen window give the same instruction. The check's level is the weaker one.",
    "level_note": "the variable-length setup functions (x86/x64 ModRM/SIB/displacement/immediate readers, LEB128 tails of wasm/dwarf) are only exercised concretely; bounded, not proved.",
    "design_ref": "DESIGN.md section 4 (C05)",
    "rule": "symbolic: one case per path of ispec.decode; run-time: per shipped specification byte strings matching its fixed bits, distinct = different mnemonics decoded",
    "explanation": "proof-level contract of ispec.decode on symbolic bytes + bounded run-time contracts with real setup functions",
    "trusted_base": _TB + ["specs/fmtsem.py", "input generator contracts/rt.py"],
    "assumptions": _AS_COMMON,
}

REGISTRY["C10"] = {
    "modules": ["contracts.rt"],
    "category": "exploration",
    "technique": "run-time frame contract (every shared register object exported by the architecture keeps size/sign flag/type/name; env.internals and regtype.cur unchanged) evaluated around decode/format/execute of spec-driven generated instructions",
    "level_text": "Bounded (concrete inputs): for every cpu module, every specification is decoded, formatted and executed once or more and the frame contract 'shared objects unchanged' is evaluated around it (shared registers, module state, and the sign flags of expression nodes held by the map the instruction is applied to). The semantic clause is evaluated directly on 15 (thorough: 40) block maps per cpu and mode: each map is observed by evaluation on a seeded constant state, then a history of compositions, merges and executions runs, and afterwards the same map objects must evaluate as before and maps rebuilt from the same instructions must evaluate the same. No proof is claimed.",
    "level_note": "bounded stand-in; the symbolic counterpart for the expression algebra is part of C13 (operands keep their denotation) and was the subject of fix b75f9ec.",
    "design_ref": "DESIGN.md section 4 (C10)",
    "rule": "per shipped specification one or more encodings; distinct = different mnemonics executed",
    "explanation": "run-time frame contract on shared architecture objects",
    "trusted_base": ["input generator contracts/rt.py", "fingerprint of shared objects: (size, sf, etype, ref) of registers/slices exported by the cpu module, env.internals, regtype.cur"],
    "assumptions": ["bounded: concrete inputs only"],
}

REGISTRY["C20"] = {
    "modules": ["contracts.formats"],
    "category": "fault_enumeration",
    "technique": "run-time contract on read_program (returns a recognised format object or the raw fallback within a time budget, raises nothing, a valid sample is claimed by its own format) evaluated on enumerated faults: truncations, header corruptions, random data",
    "level_text": "Bounded (concrete inputs): every sample file intact, truncated at every offset below 130 and on a grid plus seeded offsets, with 1 to 6 corrupted header bytes, and random strings with and without magic numbers. A per-input alarm detects unbounded loops. No proof: the parsers read byte strings through struct / codecs, outside the symbolic engine's reach.",
    "level_note": "bounded stand-in for a contract proof that is not within reach (DESIGN.md section 5); known findings are matched by failure signature.",
    "design_ref": "DESIGN.md section 4 (C20)",
    "rule": "faults enumerated per sample: truncations (dense below 130 bytes, grid and seeded above), 1-6 corrupted header bytes; random strings; distinct = different (sample, fault kind, outcome) triples",
    "explanation": "fault enumeration on read_program",
    "trusted_base": ["fault generator contracts/formats.py", "SIGALRM budget of 10 s per input"],
    "assumptions": ["bounded: concrete inputs only"],
}

REGISTRY["C14"] = {
    "modules": ["contracts.formats"],
    "category": "other",
    "technique": "contract-based deductive verification of Elf.getinfo/getfileoffset on stub program headers with symbolic fields (z3); run-time contracts on synthesised ELF images and generated HEX/SREC streams",
    "level_text": "Bounded symbolic: address-to-segment and address-to-file-offset lookups are verified for ALL field values of program header tables with <= 3 loadable entries (the entry returned is the last one containing the address; offset = p_offset + (addr - p_vaddr); None iff no entry contains it). Run-time contracts (concrete, never counted as proved): synthesised ELF images in the four class/byte-order combinations with varying table positions against the generator's ground truth (header fields, program/section headers, entry point, file offsets, data); generated Intel-HEX / S-record streams decode to the records encoded and a wrong checksum is rejected by the format's own error. PE/COFF and Mach-O: only through the C20 samples, not covered here.",
    "level_note": "the header layouts themselves are exercised through the synthesised images (built with the struct module from the ELF specification's field order), not proved; the PE headers and section table are compared with an independent struct-based reading on the one PE sample with a regular layout and on variants of it with rewritten VirtualSize/SizeOfRawData (run-time contract). Symbol tables, dynamic sections, import tables and Mach-O/COFF tables are not covered by this check.",
    "design_ref": "DESIGN.md section 4 (C14)",
    "explanation": "bounded symbolic verification of the ELF address lookups + run-time contracts on synthesised ELF images and HEX/SREC streams",
    "trusted_base": _TB + ["ELF image synthesiser and HEX/SREC encoders in contracts/formats.py (written from the format specifications)"],
    "assumptions": _AS_COMMON,
}

REGISTRY["C15"] = {
    "modules": ["contracts.formats"],
    "category": "other",
    "technique": "contract-based deductive verification of Elf.loadsegment on a stub segment with symbolic p_vaddr/p_offset/p_filesz/p_memsz and a ghost file object (page arithmetic and zero fill discharged by z3 for all field values), plus a run-time contract on load_program for synthesised ELF executables",
    "level_text": "Two components, kept apart in the evidence. PROOF LEVEL for the ELF segment-loading arithmetic: for ALL p_vaddr, p_offset (congruent modulo the page size with p_align = page size, and unrelated with p_align = 1), p_filesz <= p_memsz and the page sizes of the tier (2^8, 2^12, 2^16; thorough: 2^8..2^16) the mapping returned has a page-aligned base inside the page of p_vaddr, every file-backed byte lands at its virtual address, and the bytes in [filesz, memsz) are zero. BOUNDED (run-time contract, never counted as proved): load_program on synthesised i386 / x86-64 executables with 1-3 loadable segments in distinct pages, sharing a page, or adjacent mid-page: every byte of every segment is in the task memory at its virtual address and equals the file byte (zero beyond filesz), the program counter is the entry point and the instruction fetched there is the file's. Relocation slots and the PE/Mach-O/HEX/SREC/raw loaders are not decided by this check.",
    "level_note": "trusted: z3, symx engine, the ghost file object (records offset/size of the read, the cut and the zero padding; code that concatenates the read with other data is outside its reach and reported as undecided). The run-time contract is bounded by the generator (150 images quick / 5000 thorough).",
    "design_ref": "DESIGN.md section 0.2 and section 4 (C15)",
    "explanation": "proof of the ELF loadsegment page arithmetic and zero fill; run-time contract on the ELF loader for synthesised images",
    "trusted_base": _TB + ["ghost file object (contracts/formats.py: StubFile/GhostBytes)"],
    "assumptions": _AS_COMMON + ["only Elf.loadsegment is under a symbolic contract; the Linux x86/x64 ELF loaders are under a run-time contract; other loaders are not covered"],
}

REGISTRY["C02"] = {
    "modules": ["contracts.blockstep"],
    "category": "other",
    "technique": "contract-based deductive verification of the real code: for decoded instruction sequences the block map (S >> mapper(seq)) and the step-by-step route (each instruction applied to a copy of S) are both executed by amoco on a state whose registers are SYMBOLIC constants; postcondition 'equal whenever both are constants' discharged by z3 on every path",
    "level_text": "Bounded symbolic verification: for 12 ISA modules with semantics (RISC-V 32/64, x86, x64, MIPS, ARMv7 both modes, SPARC, MSP430, Z80, SH2, V850, 65C02), a FIXED corpus (independent of VERIF_SEED) of sequences of 1..3 (thorough: 1..4) spec-driven concrete encodings whose semantics run, hand-encoded overlapping store/load patterns through one base register (x86, RV32I) and x86/x64 shifts and rotates of 8/16-bit operands by CL, memory tracing / aliasing settings enumerated: for ALL register states the two routes agree on every register and on every memory location written at a constant address (evaluated and looked up) whenever both produce constants or compositions of constants. No reference semantics is involved (both routes are amoco's), so a semantics bug common to both routes is invisible here (that is C06's subject).",
    "level_note": "trusted: z3, symx engine/shims. Bounded by the enumerated sequences; memory is initially unknown, so loads from unwritten memory stay symbolic on both routes and are not compared; registers wider than 64 bits are left unbound. Every obligation is seeded (optional): an obligation the solvers cannot decide is reported as not decided, not as a failure.",
    "design_ref": "DESIGN.md section 4 (C02)",
    "explanation": "bounded symbolic verification of block-map versus step-by-step execution on symbolic register states",
    "trusted_base": _TB,
    "assumptions": _AS_COMMON + ["instructions whose semantics raise on an empty map are excluded by the generator (C17's subject)"],
}

REGISTRY["C19"] = {
    "modules": ["contracts.merge"],
    "category": "other",
    "technique": "contract-based deductive verification of the real code: merge(m1, m2) executed on enumerated map pairs; postcondition 'the value of each location in each map denotes, for every valuation satisfying that map's conditions, what one of the merged alternatives denotes' discharged by z3 with the independent walker",
    "level_text": "Bounded symbolic verification: seeded map pairs over three registers (one written by both maps, one by the first only, one by neither), expressions of depth <= 2 from the tree recipes, with/without complementary path conditions, widening on/off, thresholds {0,4,16}; for ALL register valuations the membership clause holds, unknown (top / widened) results are accepted as the statement says, untouched locations stay untouched, widths are preserved. Memory locations are not covered.",
    "level_note": "trusted: z3, symx engine/shims, specs/den.py and the recipe reference semantics. Every obligation is seeded (optional).",
    "design_ref": "DESIGN.md section 4 (C19)",
    "explanation": "bounded symbolic verification of merge on enumerated register map pairs, all valuations",
    "trusted_base": _TB + ["specs/den.py", "specs/refsem.py"],
    "assumptions": _AS_COMMON + ["memory locations and flag registers are not exercised"],
}

REGISTRY["C18"] = {
    "modules": ["contracts.cfg"],
    "category": "other",
    "technique": "contract-based deductive verification of code.block (length/support/slicing/cutting) on stub instructions of symbolic length and address (z3); run-time small-scope exhaustive contract on cfg.graph.add_vertex over every insertion order",
    "level_text": "Bounded symbolic: block.length/support/__getitem__/cut for blocks of <= 4 instructions with ALL lengths (1..15) and start addresses. Run-time contract (concrete, small-scope exhaustive, never counted as proved): three streams of 6 instructions (thorough: nine), every subset of <= 4 (thorough: all 6, 43 streams) block starts inserted in every order; after every insertion graph.support holds pairwise-disjoint blocks containing every inserted instruction exactly once, with a fall-through edge at every split. Linear sweep over real code (lsweep) is not covered.",
    "level_note": "trusted: z3, symx engine/shims; the stub instruction exposes address/length/bytes only. lsweep.sequence/iterblocks are under a run-time contract only (the blocks of a linear sweep partition the swept instructions, raw buffers of 4 ISAs incl. two with delay slots and every prefix of them).",
    "design_ref": "DESIGN.md section 4 (C18)",
    "explanation": "bounded symbolic verification of block operations + small-scope exhaustive run-time contract on CFG insertion orders",
    "trusted_base": _TB + ["stub instruction objects (contracts/cfg.py)"],
    "assumptions": _AS_COMMON + ["blocks cut from one stream end at the stream's fixed block ends (as basic blocks do)"],
}

NOT_APPLICABLE = {
    "C07": "the oracle is the behaviour of two external programs (binutils, LLVM): no contract on amoco's functions can state it without hand-writing a model of those decoders; a vendored table comparison is example-based testing, a different family",
}
