"""development-time tool: failure signatures of the generic run-time obligations of a property over several seeds
usage: ./vf py tools/collect_generic.py C20 contracts.formats 0 1 2 > out.json"""
import json, multiprocessing, sys, importlib
from symx import shims
shims.install()
prop, modname = sys.argv[1], sys.argv[2]
seeds = [int(x) for x in sys.argv[3:]] or [0]
m = importlib.import_module(modname)
import os
TIER = os.environ.get("COLLECT_TIER", "thorough")
OBS = [o for o in m.obligations(prop, TIER, 0) if getattr(o, "kind", "") == "rt"]
def work(a):
    i, seed = a
    r = OBS[i].run_rt(seed)
    return OBS[i].id, r["failures"]
if __name__ == "__main__":
    ctx = multiprocessing.get_context("fork")
    allf = {}
    with ctx.Pool(16) as pool:
        for oid, fails in pool.imap_unordered(work, [(i, s) for s in seeds for i in range(len(OBS))]):
            for f in fails:
                allf.setdefault((oid, f["inputs"].get("sig")), f)
    out = []
    for (oid, sg), f in sorted(allf.items()):
        w = {k: v for k, v in f["inputs"].items() if k != "sig"}
        out.append({"property": prop, "obligation": oid, "match": "v['sig'] == %r" % sg, "what": f["detail"][:220], "witness": w})
    json.dump(out, sys.stdout, indent=1)
    sys.stderr.write("%d signatures\n" % len(out))
