"""Contract on mapper composition (C02): the block map agrees with step-by-step execution.

For an instruction sequence decoded by the real disassembler (concrete encodings, enumerated)
and ALL machine states S (every register of cpu.registers up to 64 bits bound to a symbolic
constant; memory tracing / aliasing settings enumerated):

   block route:  S >> mapper([i1..ik])            (the map computed once for the sequence)
   step  route:  for i in [i1..ik]: i(S')         (S' a copy of S; what emul.stepi does)

Postcondition: for every register, and for every memory location either route wrote at a
constant address, whenever both routes yield constants they are the same constant; the block
route may stay symbolic but never produces a different constant.

No reference semantics is involved: the two routes are both amoco code, the property is their
agreement.  Bounded by the enumerated sequences (spec-driven encodings, length 1..3 quick /
1..4 thorough); complete in the states.
"""
import importlib
import random

import amoco.cas.expressions as E
from amoco.cas.mapper import mapper
from amoco.config import conf

from symx.oblig import Obligation, factory
from symx.logic import And, Or, Not, Ite, Eq, Implies
from symx.core import PathDone
from contracts.decoder import cpus, flat
from contracts.rt import Forced
from specs.fmtsem import fmtsem

ISAS = ["amoco.arch.riscv.cpu_rv32i", "amoco.arch.riscv.cpu_rv64i", "amoco.arch.x86.cpu_x86", "amoco.arch.x64.cpu_x64",
        "amoco.arch.mips.cpu_r3000LE", "amoco.arch.arm.cpu_armv7", "amoco.arch.sparc.cpu_v8", "amoco.arch.msp430.cpu",
        "amoco.arch.z80.cpu_z80", "amoco.arch.superh.cpu_sh2", "amoco.arch.v850.cpu_v850e2s", "amoco.arch.w65c02.cpu"]


def _conf(noaliasing, memtrace):
    def f():
        conf.Cas.noaliasing = noaliasing
        conf.Cas.memtrace = memtrace
        conf.Cas.complexity = 0
    return f


def state_registers(cpu):
    out = []
    for r in getattr(cpu, "registers", []):
        if isinstance(r, E.exp) and r._is_reg and not r._is_slc and not r._is_ext and r.size and r.size <= 64:
            out.append(r)
    return out


def _restore(cpu):
    regs = state_registers(cpu)
    saved = [(r, r.sf) for r in regs]
    # module state written by some semantics (ARM: instruction set / endianness 'internals'): every
    # path starts from the state the module had at import, as a fresh interpreter would
    internals = getattr(cpu, "internals", None)
    internals0 = _INTERNALS0.setdefault(cpu.__name__, dict(internals) if isinstance(internals, dict) else None)

    def f():
        for r, sf in saved:
            r.sf = sf
        if internals0 is not None:
            internals.clear()
            internals.update(internals0)
    return f


_INTERNALS0 = {}


def _snapshot_internals():
    "the 'internals' of every ISA module as they are at import (taken before anything is decoded or executed here)"
    for mn in ISAS:
        try:
            m = importlib.import_module(mn)
        except Exception:
            continue
        it = getattr(m, "internals", None)
        if isinstance(it, dict):
            _INTERNALS0[mn] = dict(it)


_snapshot_internals()


def const_of(x):
    "the value of an expression that is a constant or a composition of constants (None otherwise)"
    if x._is_cst:
        return x.v
    if x._is_cmp:
        total = 0
        for (lo, hi) in sorted(x.parts.keys()):
            v = const_of(x.parts[(lo, hi)])
            if v is None:
                return None
            total = total + ((v % (1 << (hi - lo))) << lo)
        return total
    return None


@factory
def block_step(cpu, mode, seq, noaliasing, memtrace, names=""):
    m = importlib.import_module(cpu)
    d = m.disassemble
    seq = [bytes.fromhex(x) for x in seq]
    restore = _restore(m)
    setconf = _conf(noaliasing, memtrace)

    def before():
        restore()
        setconf()

    def body(V):
        with Forced(d, mode):
            instrs = [d(b) for b in seq]
        if any(i is None for i in instrs):
            return {"C02 sequence decodes": False}
        regs = state_registers(m)
        vals = {}

        def state():
            S = mapper()
            for r in regs:
                if r.ref not in vals:
                    vals[r.ref] = V.int("%s" % r.ref, 0, (1 << r.size) - 1)
                c = E.cst(0, r.size)
                c.v = vals[r.ref]
                S[r] = c
            return S
        S1 = state()
        S2 = state()
        try:
            M = mapper(instrs)
            B = S1 >> M
            for i in instrs:
                i(S2)
        except Exception:
            # semantics that raise are C17's subject (known findings there): no claim on this path
            raise PathDone("a route raised")
        post = {}
        compared = 0
        for r in regs:
            a = B(r)
            b = S2(r)
            va, vb = const_of(a), const_of(b)
            if va is not None and vb is not None and a.size == b.size:
                post["C02 register %s: block route == step route" % r.ref] = Eq(va, vb)
                compared += 1
        # memory written at constant addresses by either route
        locs = {}
        for mp in (B, S2):
            for loc, v in mp:
                if loc._is_ptr and loc.base._is_cst:
                    locs[str(loc)] = (loc, v.size)
        for key, (loc, size) in sorted(locs.items()):
            a = B(E.mem(loc, size))
            b = S2(E.mem(loc, size))
            va, vb = const_of(a), const_of(b)
            if va is not None and vb is not None and a.size == b.size:
                post["C02 memory %s: block route == step route" % key] = Eq(va, vb)
                compared += 1
            # the same location looked up in the maps' memories (mapper.__getitem__)
            try:
                a, b = B[E.mem(loc, size)], S2[E.mem(loc, size)]
            except Exception:
                continue
            va, vb = const_of(a), const_of(b)
            if va is not None and vb is not None and a.size == b.size:
                post["C02 memory %s (looked up): block route == step route" % key] = Eq(va, vb)
                compared += 1
        post["C02 compared something"] = True
        V.note("compared=%d" % compared)
        return post
    W = 2 * 64 + 24
    name = ".".join(cpu.split(".")[2:])
    return Obligation("B/%s/m%d/%s/%s/%s/%s" % (name, mode, names, "+".join(x.hex() for x in seq), "noalias" if noaliasing else "alias", "trace" if memtrace else "notrace"),
                      body, ["C02"],
                      ["amoco.cas.mapper:mapper.__init__", "amoco.cas.mapper:mapper.rcompose", "amoco.cas.mapper:mapper.__rshift__", "amoco.cas.mapper:mapper.eval",
                       "amoco.cas.mapper:mapper.use", "amoco.cas.mapper:mapper.__setitem__", "amoco.cas.mapper:mapper.__call__", "amoco.arch.core:icore.__call__",
                       "%s: i_XXX semantics" % cpu],
                      mode="bv", W=W, level="Bsym", bound="instruction sequences of length <= 3 (quick) / 4 (thorough) from spec-driven concrete encodings; all register states symbolic; memory initially unknown",
                      before_path=before, samples=6, maxpaths=3000, index_limit=300, vc_timeout_ms=10000, budget_s=20)


def gen_sequences(mn, d, mode, n, maxlen, rng):
    "spec-driven concrete encodings that decode and have semantics, combined into short sequences"
    m = importlib.import_module(mn)
    specs = flat(d.specs[mode])
    pool = []
    tries = 0
    e = d.endian()
    uarch = getattr(d.iclass, "_uarch", {})
    with Forced(d, mode):
        while len(pool) < 4 * n and tries < 40 * n:
            tries += 1
            s = rng.choice(specs)
            try:
                f = fmtsem(s.format)
            except Exception:
                continue
            blen = f.nbits // 8
            word = f.fix | (rng.getrandbits(f.nbits) & ~f.mask)
            b = word.to_bytes(blen, "little" if e == 1 else "big")
            if f.size == 0:
                b += bytes(rng.getrandbits(8) for _ in range(max(1, d.maxlen - blen)))
            try:
                i = d(b)
                if i is None or ("i_%s" % i.mnemonic) not in uarch:
                    continue
                i(mapper())          # only instructions whose semantics run at all (C17's subject otherwise)
                str(i)
            except Exception:
                continue
            pool.append((bytes(i.bytes), i.mnemonic))
    seqs = []
    # every instruction of the pool alone (a failure then names its instruction), then sequences
    for x in pool[:n]:
        seqs.append([x])
    for _ in range(max(2, n // 2)):
        if not pool:
            break
        k = rng.randint(2, maxlen)
        seqs.append([rng.choice(pool) for _ in range(k)])
    return seqs


def memory_sequences(n, rng):
    """hand-encoded store/load sequences through one base register with overlapping offsets and
    repeated pointers (x86 and RV32I): the order in which a block map replays its memory writes"""
    out = []
    regs86 = {0: "eax", 1: "ecx", 2: "edx", 6: "esi", 7: "edi"}

    def x86_op(kind, size, reg, disp):
        modrm = 0x40 | (reg << 3) | 3            # [ebx+disp8]
        op = {("st", 4): b"\x89", ("st", 2): b"\x66\x89", ("st", 1): b"\x88", ("ld", 4): b"\x8b", ("ld", 2): b"\x66\x8b", ("ld", 1): b"\x8a"}[(kind, size)]
        return op + bytes([modrm, disp & 0xFF]), "MOV"

    def rv_op(kind, size, reg, disp):
        f3 = {4: 2, 2: 1, 1: 0}[size]
        rs1 = 8                                     # s0
        if kind == "st":
            w = ((disp >> 5) & 0x7F) << 25 | reg << 20 | rs1 << 15 | f3 << 12 | (disp & 0x1F) << 7 | 0x23
            nm = {4: "sw", 2: "sh", 1: "sb"}[size]
        else:
            w = (disp & 0xFFF) << 20 | rs1 << 15 | f3 << 12 | reg << 7 | 0x03
            nm = {4: "lw", 2: "lh", 1: "lb"}[size]
        return w.to_bytes(4, "little"), nm
    # canonical patterns: (kind, size, offset) with the stored register varying per position
    PATTERNS = [
        [("st", 4, 0), ("st", 4, 2), ("st", 4, 0)],                   # a pointer stored to again after an overlapping store
        [("st", 4, 0), ("st", 4, 2), ("st", 4, 0), ("ld", 4, 0)],
        [("st", 4, 4), ("st", 1, 5), ("st", 2, 4), ("ld", 4, 4)],
        [("st", 2, 2), ("st", 4, 0), ("st", 2, 2), ("ld", 4, 0)],
        [("st", 4, 0), ("ld", 4, 0), ("st", 4, 0)],
    ]
    for cpu, mk, regs in (("amoco.arch.x86.cpu_x86", x86_op, [0, 1, 2, 6, 7]), ("amoco.arch.riscv.cpu_rv32i", rv_op, [10, 11, 12, 13])):
        for pat in PATTERNS:
            out.append((cpu, [mk(kind, size, regs[j % len(regs)], off) for j, (kind, size, off) in enumerate(pat)]))
        for _ in range(n):
            k = rng.choice((3, 3, 4))
            seq = []
            d0 = rng.choice((0, 4, 8))
            offs = [d0] + [d0 + rng.choice((0, 0, 1, 2, 3, 4, -2)) for _ in range(k - 1)]
            if rng.random() < 0.6:
                offs[-1] = offs[0]                  # the first pointer is used again
            for j in range(k):
                kind = "st" if (j < k - 1 or rng.random() < 0.6) else "ld"
                seq.append(mk(kind, rng.choice((4, 4, 2, 1)), rng.choice(regs), max(0, offs[j])))
            out.append((cpu, seq))
    return out


def obligations(prop, tier, seed):
    # the corpus is FIXED (independent of VERIF_SEED): block/step disagreements are genuine
    # defects of individual semantics functions, recorded one by one as known findings by
    # mnemonic; a seed-dependent corpus would surface new ones on the unchanged tree
    rng = random.Random("blockstep-fixed-corpus")
    obs = []
    allcpus = dict((mn, d) for mn, k, d in cpus())
    for mn in ISAS:
        if mn not in allcpus:
            continue
        d = allcpus[mn]
        for mode in range(len(d.specs)):
            n = (6 if tier == "quick" else 12)
            for seq in gen_sequences(mn, d, mode, n, 3 if tier == "quick" else 4, rng):
                single = len(seq) == 1
                configs = [(True, True)] if single else [(True, True), (False, True), (False, False)]
                for (na, mt) in configs:
                    o = block_step(cpu=mn, mode=mode, seq=[b.hex() for b, nm in seq], noaliasing=na, memtrace=mt, names="+".join(nm for b, nm in seq))
                    o.optional = True
                    o.weight = 3 * len(seq)
                    obs.append(o)
    for cpu, seq in memory_sequences(8 if tier == "quick" else 60, random.Random("blockstep-memory-corpus")):
        if cpu not in allcpus:
            continue
        for (na, mt) in [(True, True), (False, True), (True, False)]:
            o = block_step(cpu=cpu, mode=0, seq=[b.hex() for b, nm in seq], noaliasing=na, memtrace=mt, names="mem:" + "+".join(nm for b, nm in seq))
            o.optional = True
            o.weight = 3 * len(seq)
            obs.append(o)
    # x86 / x64 shifts and rotates of 8- and 16-bit operands by CL: counts at or above the operand
    # width are where a map built for a symbolic count and the constant-count path can part
    for cpu in ("amoco.arch.x86.cpu_x86", "amoco.arch.x64.cpu_x64"):
        if cpu not in allcpus:
            continue
        for op, nm in ((0, "ROL"), (1, "ROR"), (2, "RCL"), (3, "RCR"), (4, "SHL"), (5, "SHR"), (7, "SAR")):
            for enc, w in ((bytes([0xD2, 0xC3 | op << 3]), 8), (bytes([0x66, 0xD3, 0xC3 | op << 3]), 16)):
                o = block_step(cpu=cpu, mode=0, seq=[enc.hex()], noaliasing=True, memtrace=True, names="cl%d:%s" % (w, nm))
                o.optional = True
                o.weight = 3
                obs.append(o)
    seen = set()
    out = []
    for o in obs:
        if o.id not in seen:
            seen.add(o.id)
            out.append(o)
    return out
