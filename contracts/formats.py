"""Contracts on the executable-format parsers and loaders (C14, C15, C20).

C20 (run-time contract, fault enumeration): read_program(bytes) terminates within a budget and
   returns a recognised format object or the raw fallback; it never raises; a valid sample of
   one format is claimed by that format.  Inputs: every prefix truncation (dense near the
   headers), single-byte corruptions of header/table bytes, random data, of every sample.

C14: symbolic contract on Elf.getinfo / getfileoffset (address-to-segment and address-to-
   file-offset follow the mapping of the LAST loadable entry that contains the address), with
   stub headers whose fields are symbolic; run-time contracts: synthesised ELF images in the four
   class/byte-order combinations against the generator's ground truth, generated Intel-HEX and
   S-record streams (records decode to what was encoded; a corrupted checksum is rejected).

C15: symbolic contract on Elf.loadsegment (all p_vaddr/p_offset/p_filesz/p_memsz, page sizes
   2^8..2^16): page-aligned base, every file-backed byte lands at its virtual address, bytes
   in [filesz, memsz) are zero; run-time contract on the loaders for the samples.
"""
import io
import os
import random
import signal
import struct
import time

import amoco.system.core as SCORE
import amoco.system.elf as ELF
# read_program imports the format modules lazily: import them now, outside any time budget
import amoco.system.pe        # noqa: F401
import amoco.system.macho     # noqa: F401
import amoco.system.coff      # noqa: F401
import amoco.system.structs.HEX    # noqa: F401
import amoco.system.structs.SREC   # noqa: F401

from symx.oblig import Obligation, factory
from symx.logic import And, Or, Not, Ite, Eq, Implies
from symx.core import SInt
from contracts.decoder import _Concrete

SAMPLES = os.path.join(os.environ.get("AMOCO_REPO", "/repo"), "tests", "samples")


def sample_files():
    out = []
    for dp, dn, fns in os.walk(SAMPLES):
        for fn in sorted(fns):
            p = os.path.join(dp, fn)
            if os.path.getsize(p) < 4_000_000 and not fn.endswith((".s", ".c", ".txt")):
                out.append(p)
    return sorted(out)


class Timeout(Exception):
    pass


def _alarm(signum, frame):
    raise Timeout()


KNOWN_CLASSES = ("Elf", "PE", "MachO", "COFF", "HEX", "SREC", "shellcode", "DataIO")


def identify(data, budget=3):
    "('ok', class name) | ('raise', signature) | ('timeout', '')"
    try:
        return _identify(data, budget)
    except Timeout:      # the alarm fired while an exception was being reported
        return "timeout", "no result within %ds" % budget


def _identify(data, budget):
    from contracts.rt import sig
    old = signal.signal(signal.SIGALRM, _alarm)
    signal.alarm(budget)
    try:
        try:
            p = SCORE.read_program(data)
            return "ok", type(p).__name__
        except Timeout:
            return "timeout", "no result within %ds" % budget
        except MemoryError:
            return "raise", "MemoryError"
        except Exception as e:
            return "raise", sig(e)
    finally:
        signal.alarm(0)
        signal.signal(signal.SIGALRM, old)


def _c20_run(tier, seed, only=None, which=None):
    rng = random.Random("c20/%s/%s" % (seed, which))
    fails = []
    samples = []
    n = 0
    kinds = set()
    if only is not None:
        data = bytes.fromhex(only["data"]) if "data" in only else None
        if data is None:
            base = open(os.path.join(SAMPLES, only["sample"]), "rb").read()
            data = mutate(base, only)
        st, what = identify(data)
        if st != "ok" or what not in KNOWN_CLASSES:
            return 1, [(only, "%s %s" % (st, what))], [], 1
        return 1, [], [], 1
    files = sample_files()
    for path in files:
        rel = os.path.relpath(path, SAMPLES)
        if which != rel:
            continue
        base = open(path, "rb").read()
        st, good = identify(base)
        n += 1
        if st != "ok":
            fails.append(({"sample": rel, "op": "intact", "sig": "intact:%s" % good}, "intact sample: %s %s" % (st, good)))
            continue
        expected = expected_class(base)
        if expected and good != expected:
            fails.append(({"sample": rel, "op": "intact", "sig": "claimed-by:%s" % good}, "a valid %s file is claimed as %s" % (expected, good)))
        cases = []
        L = len(base)
        cuts = set(range(0, min(L, 130))) | set(range(0, min(L, 4096), 37 if tier == "quick" else 5))
        cuts |= set(rng.randrange(L) for _ in range(30 if tier == "quick" else 400))
        for c in sorted(cuts):
            cases.append({"sample": rel, "op": "truncate", "at": c})
        hdr = min(L, 512 if tier == "quick" else 2048)
        for _ in range(120 if tier == "quick" else 2500):
            cases.append({"sample": rel, "op": "corrupt", "at": rng.randrange(hdr), "val": rng.choice((0, 0xFF, 0x7F, 0x80, rng.getrandbits(8)))})
        for _ in range(20 if tier == "quick" else 300):
            k = rng.randint(2, 6)
            cases.append({"sample": rel, "op": "corrupt-many", "at": [rng.randrange(hdr) for _ in range(k)], "val": [rng.getrandbits(8) for _ in range(k)]})
        for case in cases:
            data = mutate(base, case)
            st, what = identify(data, budget=3)
            n += 1
            kinds.add((rel, case["op"], what if st == "ok" else st))
            if st != "ok" or what not in KNOWN_CLASSES:
                fails.append((dict(case, sig="%s:%s" % (st, what)), "%s on %s %s: %s %s" % (case["op"], rel, case.get("at"), st, what)))
            elif len(samples) < 4 and case["op"] != "truncate":
                samples.append({"case": case, "result": what})
    for _ in range((200 if tier == "quick" else 4000) if which == "<random>" else 0):
        data = bytes(rng.getrandbits(8) for _ in range(rng.choice((0, 1, 3, 16, 64, 300))))
        r = rng.random()
        if r < 0.3:
            data = rng.choice((b"\x7fELF", b"MZ", b"\xfe\xed\xfa\xce", b"\xcf\xfa\xed\xfe", b":10", b"S1", b"\x4c\x01")) + data
        elif r < 0.45:
            # text shaped like a record file: a start character, then hexadecimal digits (any of them, also in the type position)
            hexd = b"0123456789ABCDEFabcdef"
            body = bytes(rng.choice(hexd) for _ in range(rng.choice((1, 2, 3, 7, 8, 10, 21))))
            data = rng.choice((b"S", b":", b"S", b":")) + body + rng.choice((b"", b"\n", b"\r\n", b"\n\n")) + (data if rng.random() < 0.3 else b"")
        st, what = identify(data)
        n += 1
        if st != "ok" or what not in KNOWN_CLASSES:
            fails.append(({"data": data.hex(), "op": "random", "sig": "%s:%s" % (st, what)}, "random data %s...: %s %s" % (data[:12].hex(), st, what)))
    return n, fails, samples, len(kinds)


def mutate(base, case):
    if case["op"] == "truncate":
        return base[:case["at"]]
    b = bytearray(base)
    if case["op"] == "corrupt":
        b[case["at"]] = case["val"]
    elif case["op"] == "corrupt-many":
        for a, v in zip(case["at"], case["val"]):
            b[a] = v
    return bytes(b)


def expected_class(base):
    if base[:4] == b"\x7fELF":
        return "Elf"
    if base[:2] == b"MZ":
        return "PE"
    if base[:4] in (b"\xfe\xed\xfa\xce", b"\xce\xfa\xed\xfe", b"\xcf\xfa\xed\xfe", b"\xfe\xed\xfa\xcf"):
        return "MachO"
    return None


class _RtGeneric(_Concrete):
    level = "Brt"

    def __init__(self, oid, props, fuc, runner, ref, rule, tier):
        self._runner, self._rule, self.tier = runner, rule, tier
        _Concrete.__init__(self, oid, props, fuc, None, ref)

    def run_rt(self, seed):
        t0 = time.time()
        n, fails, samples, distinct = self._runner(self.tier, seed)
        seen = {}
        for inp, detail in fails:
            seen.setdefault(inp.get("sig", detail[:60]), (inp, detail))
        return {"id": self.id, "props": self.props, "level": "Brt", "fuc": self.fuc, "kind": "rt",
                "verdict": "proved" if not fails else "refuted", "evaluations": n, "distinct_nontrivial": distinct,
                "failures": [{"inputs": i, "detail": dt, "confirmed": True} for (i, dt) in seen.values()][:60],
                "failure_count": len(fails), "samples": samples, "rule": self._rule,
                "paths": 0, "vcs": 0, "discharged": 0, "solver_s": 0, "backend": {}, "ref": self.ref(), "expect": "proved",
                "bound": "concrete inputs", "wall_s": round(time.time() - t0, 2)}

    def replay_rt(self, inputs):
        n, fails, samples, distinct = self._runner(self.tier, 0, only=inputs)
        if fails:
            return "fail", fails[0][1]
        return "ok", ""


def c20(tier, which):
    import functools
    return _RtGeneric("F/read_program/%s" % which, ["C20"],
                      ["amoco.system.core:read_program", "amoco.system.elf:Elf.__init__", "amoco.system.pe:PE.__init__", "amoco.system.macho:MachO.__init__",
                       "amoco.system.coff:COFF.__init__", "amoco.system.structs.HEX:HEX.__init__", "amoco.system.structs.SREC:SREC.__init__"],
                      functools.partial(_c20_run, which=which), ("contracts.formats:c20", {"tier": tier, "which": which}),
                      "every sample intact, truncated at every offset below 130 and on a grid/seeded offsets, with 1..6 corrupted header bytes, plus random strings with and without magic numbers; distinct = different (sample, fault kind, outcome) triples", tier)


# ---------------------------------------------------------------------------------------
# C14 / C15: symbolic contracts on the ELF address arithmetic (stub headers, symbolic fields)
# ---------------------------------------------------------------------------------------

class StubPhdr(ELF.Phdr):
    "a program header whose fields are set directly (no unpacking)"

    def __init__(self, **kw):
        for k, v in kw.items():
            object.__setattr__(self, k, v)

    def __getattr__(self, k):
        raise AttributeError(k)


def _stub_elf(phdrs, fileobj=None):
    e = object.__new__(ELF.Elf)
    e.Phdr = list(phdrs)
    e.Shdr = []
    e.functions = {}
    e.variables = {}
    object.__setattr__(e, "_Elf__file", fileobj)
    object.__setattr__(e, "_Elf__sections", {})
    return e


@factory
def elf_getinfo(n):
    "address lookups follow the mapping of the last loadable segment that contains the address"
    def body(V):
        ph = []
        for k in range(n):
            ph.append(StubPhdr(p_type=ELF.PT_LOAD, p_vaddr=V.int("va%d" % k, 0, 1 << 32), p_filesz=V.int("fs%d" % k, 0, 1 << 20),
                               p_memsz=0, p_offset=V.int("off%d" % k, 0, 1 << 24), p_align=1))
        addr = V.int("addr", 0, 1 << 33)
        e = _stub_elf(ph)
        s, off, base = e.getinfo(addr)
        fo = e.getfileoffset(addr)
        post = {}
        inside = [And(p.p_vaddr <= addr, addr < p.p_vaddr + p.p_filesz) for p in ph]
        if s is None:
            post["C14 no segment only when none contains the address"] = Not(Or(inside))
            post["C14 no file offset"] = (fo is None)
        else:
            k = [i for i, p in enumerate(ph) if p is s]
            post["C14 returned segment belongs to the table"] = (len(k) == 1)
            if k:
                k = k[0]
                post["C14 the segment contains the address"] = inside[k]
                post["C14 offset into the segment"] = Eq(off, addr - ph[k].p_vaddr)
                post["C14 base address"] = Eq(base, ph[k].p_vaddr)
                post["C14 file offset follows the segment's mapping"] = Eq(fo, ph[k].p_offset + (addr - ph[k].p_vaddr))
        return post
    return Obligation("F/elf/getinfo/segments=%d" % n, body, ["C14"], ["amoco.system.elf:Elf.getinfo", "amoco.system.elf:Elf.getfileoffset"],
                      mode="int", level="Bsym", bound="program header tables of <= 3 loadable entries, all field values symbolic", samples=20)


class GhostBytes(object):
    "what the stub file returns: 'size' bytes read at file offset 'off' (contents abstract), optionally cut and zero-padded"

    def __init__(self, off, size, keep=None, total=None):
        self.off, self.size, self.keep, self.total = off, size, keep, total

    def __getitem__(self, s):
        assert isinstance(s, slice) and s.start in (None, 0) and s.step is None
        return GhostBytes(self.off, self.size, keep=s.stop, total=None)

    def ljust(self, total, fill=b"\x00"):
        assert fill == b"\x00"
        return GhostBytes(self.off, self.size, keep=self.keep if self.keep is not None else self.size, total=total)

    def __len__(self):
        raise TypeError("length of abstract file bytes")

    def __add__(self, other):
        from symx.core import OutOfReach
        raise OutOfReach("the abstract file bytes are concatenated with other data: outside what this contract's ghost file can follow")
    __radd__ = __add__


class StubFile(object):
    def __init__(self):
        self.pos = None

    def seek(self, off, whence=0):
        self.pos = off

    def read(self, size=-1):
        return GhostBytes(self.pos, size)


@factory
def elf_loadsegment(k, congruent=True):
    """congruent: p_align is the page size and p_vaddr == p_offset modulo it (what linkers emit);
    otherwise p_align is 1 (no alignment promised) and the two are unrelated modulo the page size:
    the file-backed bytes must still land at their virtual addresses"""
    ps = 1 << k

    def body(V):
        va = V.int("vaddr", 0, 1 << 40)
        off = V.int("offset", 0, 1 << 30)
        fs = V.int("filesz", 0, 1 << 24)
        ms = V.int("memsz", 0, 1 << 25)
        V.assume(ms >= fs)
        if congruent:
            V.assume(Eq(va % ps, off % ps))
        else:
            V.assume(off >= va % ps)           # the page that holds p_vaddr starts inside the file
        seg = StubPhdr(p_type=ELF.PT_LOAD, p_vaddr=va, p_offset=off, p_filesz=fs, p_memsz=ms, p_align=ps if congruent else 1)
        e = _stub_elf([seg], StubFile())
        r = e.loadsegment(seg, ps)
        post = {"C15 one mapping": isinstance(r, dict) and len(r) == 1}
        if not post["C15 one mapping"]:
            return post
        (base, data), = r.items()
        post["C15 base is page aligned"] = Eq(base % ps, 0)
        post["C15 base is the page of p_vaddr"] = And(base <= va, va - base < ps)
        post["C15 file bytes land at their virtual address (offset - file offset is constant)"] = Eq(va - base, off - data.off) if isinstance(data, GhostBytes) else False
        if isinstance(data, GhostBytes):
            keep = data.keep if data.keep is not None else data.size
            total = data.total if data.total is not None else keep
            pre = va - base
            post["C15 every file-backed byte is present"] = And(data.size >= pre + fs, keep >= pre + fs)
            post["C15 bytes in [filesz, memsz) read as zero"] = And(keep <= pre + fs, total >= pre + ms) if True else True
        return post
    return Obligation("F/elf/loadsegment/pagesize=2^%d%s" % (k, "" if congruent else "/unaligned"), body, ["C15"], ["amoco.system.elf:Elf.loadsegment"],
                      mode="int", level="P", samples=20, hash_limit=0)


# ---------------------------------------------------------------------------------------
# C14 run-time: synthesised ELF images, HEX / SREC streams
# ---------------------------------------------------------------------------------------

def synth_elf(rng, x64, msb):
    "a structurally valid ELF image with random tables; returns (bytes, ground truth)"
    E = ">" if msb else "<"
    nph = rng.randint(1, 4)
    nsh = rng.randint(0, 3)
    ehsize = 64 if x64 else 52
    phbase = phent = 56 if x64 else 32
    shbase = shent = 64 if x64 else 40
    # the gABI lets e_phentsize / e_shentsize exceed the structure sizes (entries are then padded)
    phent += rng.choice((0, 0, 0, 8))
    shent += rng.choice((0, 0, 8, 16))
    phoff = ehsize + rng.choice((0, 8, 16))          # the gABI requires natural alignment of the tables
    body_off = phoff + nph * phent + rng.choice((0, 8))
    segs = []
    cur = body_off
    for k in range(nph):
        filesz = rng.choice((0, 1, 16, 100))
        memsz = filesz + rng.choice((0, 32))
        vaddr = 0x10000 * (k + 1) + (cur % 0x1000)
        ptype = rng.choice((1, 1, 1, 2, 4, 6))
        segs.append(dict(p_type=ptype, p_offset=cur, p_vaddr=vaddr, p_paddr=vaddr, p_filesz=filesz, p_memsz=memsz, p_flags=rng.choice((4, 5, 6)), p_align=0x1000))
        cur += filesz
    shoff = (cur + 7) & ~7 if nsh else 0
    entry = segs[0]["p_vaddr"] + rng.randint(0, 8)
    ident = b"\x7fELF" + bytes([2 if x64 else 1, 2 if msb else 1, 1, 0]) + b"\0" * 8
    etype, mach = 2, rng.choice((3, 62, 40, 8, 243))
    if x64:
        eh = struct.pack(E + "HHIQQQIHHHHHH", etype, mach, 1, entry, phoff, shoff, 0, ehsize, phent, nph, shent, nsh, 0)
    else:
        eh = struct.pack(E + "HHIIIIIHHHHHH", etype, mach, 1, entry, phoff, shoff, 0, ehsize, phent, nph, shent, nsh, 0)
    img = bytearray(ident + eh)
    img += b"\0" * (phoff - len(img))
    for s in segs:
        if x64:
            img += struct.pack(E + "IIQQQQQQ", s["p_type"], s["p_flags"], s["p_offset"], s["p_vaddr"], s["p_paddr"], s["p_filesz"], s["p_memsz"], s["p_align"])
        else:
            img += struct.pack(E + "IIIIIIII", s["p_type"], s["p_offset"], s["p_vaddr"], s["p_paddr"], s["p_filesz"], s["p_memsz"], s["p_flags"], s["p_align"])
        img += b"\xee" * (phent - phbase)
    img += b"\0" * (body_off - len(img))
    for s in segs:
        img += bytes(rng.getrandbits(8) for _ in range(s["p_filesz"]))
    sects = []
    if nsh:
        img += b"\0" * (shoff - len(img))
        for k in range(nsh):
            sh = dict(sh_name=0, sh_type=rng.choice((1, 8, 0)), sh_flags=2, sh_addr=segs[0]["p_vaddr"], sh_offset=segs[0]["p_offset"], sh_size=segs[0]["p_filesz"],
                      sh_link=0, sh_info=k, sh_addralign=1 << k, sh_entsize=0)
            sects.append(sh)
            if x64:
                img += struct.pack(E + "IIQQQQIIQQ", sh["sh_name"], sh["sh_type"], sh["sh_flags"], sh["sh_addr"], sh["sh_offset"], sh["sh_size"], sh["sh_link"], sh["sh_info"], sh["sh_addralign"], sh["sh_entsize"])
            else:
                img += struct.pack(E + "IIIIIIIIII", sh["sh_name"], sh["sh_type"], sh["sh_flags"], sh["sh_addr"], sh["sh_offset"], sh["sh_size"], sh["sh_link"], sh["sh_info"], sh["sh_addralign"], sh["sh_entsize"])
            img += b"\xee" * (shent - shbase)
    truth = dict(e_type=etype, e_machine=mach, e_entry=entry, e_phoff=phoff, e_shoff=shoff, e_phnum=nph, e_shnum=nsh, e_phentsize=phent, e_shentsize=shent,
                 segs=segs, sects=sects, x64=x64, msb=msb)
    return bytes(img), truth


def _elf_case(seed):
    rng = random.Random(seed)
    x64, msb = rng.random() < 0.5, rng.random() < 0.5
    img, t = synth_elf(rng, x64, msb)
    bad = []
    try:
        e = ELF.Elf(SCORE.DataIO(img))
    except Exception as ex:
        from contracts.rt import sig
        return {"x64": x64, "msb": msb}, ["parser raised %s" % sig(ex)]
    for k in ("e_type", "e_machine", "e_entry", "e_phoff", "e_shoff", "e_phnum", "e_shnum", "e_phentsize", "e_shentsize"):
        if getattr(e.Ehdr, k) != t[k]:
            bad.append("Ehdr.%s = %r, file encodes %r" % (k, getattr(e.Ehdr, k), t[k]))
    if e.entrypoints != [t["e_entry"]]:
        bad.append("entrypoints %r" % (e.entrypoints,))
    known = [s for s in t["segs"]]
    if len(e.Phdr) != len(known):
        bad.append("%d program headers reported, %d encoded" % (len(e.Phdr), len(known)))
    else:
        for P, s in zip(e.Phdr, known):
            for k, v in s.items():
                if getattr(P, k) != v:
                    bad.append("Phdr.%s = %r, file encodes %r" % (k, getattr(P, k), v))
    want = [s for s in t["sects"]]
    if len(e.Shdr) != len(want):
        bad.append("%d section headers reported, %d encoded" % (len(e.Shdr), len(want)))
    else:
        for S_, s in zip(e.Shdr, want):
            for k, v in s.items():
                if getattr(S_, k) != v:
                    bad.append("Shdr.%s = %r, file encodes %r" % (k, getattr(S_, k), v))
    # address -> file offset through the real tables
    loads = [s for s in t["segs"] if s["p_type"] == 1 and s["p_filesz"] > 0]
    for s in loads[:2]:
        a = s["p_vaddr"] + rng.randrange(s["p_filesz"])
        try:
            fo = e.getfileoffset(a)
        except Exception as ex:
            from contracts.rt import sig
            bad.append("getfileoffset raised %s" % sig(ex))
            continue
        exp = s["p_offset"] + (a - s["p_vaddr"])
        if not t["sects"] and fo != exp:
            bad.append("getfileoffset(%#x) = %r, the file maps it to %#x" % (a, fo, exp))
        if t["sects"] and fo is not None and fo != exp and any(x["sh_type"] == 1 for x in t["sects"]):
            bad.append("getfileoffset(%#x) = %r through the section table, the file maps it to %#x" % (a, fo, exp))
        d = e.data(a, 1)
        if not t["sects"] and d != img[exp:exp + 1]:
            bad.append("data(%#x,1) = %r, file byte is %r" % (a, d, img[exp:exp + 1]))
    return {"x64": x64, "msb": msb, "nph": len(t["segs"]), "nsh": len(t["sects"])}, bad


def _elf_rt(tier, seed, only=None):
    n = 600 if tier == "quick" else 20000
    seeds = [only["seed"]] if only is not None else ["elf/%s/%d" % (seed, k) for k in range(n)]
    fails = []
    samples = []
    distinct = set()
    for sd in seeds:
        case, bad = _elf_case(sd)
        distinct.add(tuple(sorted(case.items())))
        for b in bad[:3]:
            key = b.split("=")[0].split("(")[0][:40]
            fails.append(({"seed": sd, "sig": "elf:" + key}, "%s: %s" % (case, b)))
        if len(samples) < 3:
            samples.append(case)
    return len(seeds), fails, samples, len(distinct)


def hexline(code, addr, data):
    body = bytes([len(data), (addr >> 8) & 0xFF, addr & 0xFF, code]) + data
    ck = (-sum(body)) & 0xFF
    return b":" + body.hex().upper().encode() + b"%02X" % ck


def srecline(t, addr, data):
    alen = {0: 2, 1: 2, 2: 3, 3: 4, 5: 2, 7: 4, 8: 3, 9: 2}[t]
    ab = addr.to_bytes(alen, "big")
    body = bytes([alen + len(data) + 1]) + ab + data
    ck = (~sum(body)) & 0xFF
    return b"S%d" % t + body.hex().upper().encode() + b"%02X" % ck


def _records_rt(tier, seed, only=None):
    from amoco.system.structs.HEX import HEX, HEXError
    from amoco.system.structs.SREC import SREC, SRECError
    from contracts.rt import sig
    n = 300 if tier == "quick" else 6000
    seeds = [only["seed"]] if only is not None else ["rec/%s/%d" % (seed, k) for k in range(n)]
    fails = []
    samples = []
    distinct = set()
    for sd in seeds:
        rng = random.Random(sd)
        kind = rng.choice(("hex", "srec"))
        recs = []
        lines = []
        addr = rng.randrange(0, 0xFF00)
        entry = None
        if kind == "hex":
            mode_ = rng.choice(("none", "ela", "seg"))
            basea = 0
            if mode_ == "ela":
                up = rng.randrange(1, 0x100)
                lines.append(hexline(4, 0, up.to_bytes(2, "big")))
                basea = up << 16
            elif mode_ == "seg":
                sg = rng.choice((0x1000, 0x1001, 0x12F8, 0x0FFF, rng.randrange(1, 0xFFFF)))
                lines.append(hexline(2, 0, sg.to_bytes(2, "big")))
                basea = sg * 16
            for _ in range(rng.randint(1, 4)):
                d = bytes(rng.getrandbits(8) for _ in range(rng.randint(1, 16)))
                lines.append(hexline(0, addr, d))
                recs.append((basea + addr, d))
                addr = (addr + len(d) + rng.choice((0, 0, 7))) & 0xFFFF
            if rng.random() < 0.5:
                entry = rng.getrandbits(32)
                lines.append(hexline(5, 0, entry.to_bytes(4, "big")))
            lines.append(hexline(1, 0, b""))
            cls, err = HEX, HEXError
        else:
            lines.append(srecline(0, 0, b"HDR"))
            t = rng.choice((1, 2, 3))
            for _ in range(rng.randint(1, 4)):
                d = bytes(rng.getrandbits(8) for _ in range(rng.randint(1, 16)))
                lines.append(srecline(t, addr, d))
                recs.append((addr, d))
                addr = (addr + len(d) + rng.choice((0, 0, 5))) & 0xFFFF
            entry = rng.getrandbits(16)
            lines.append(srecline({1: 9, 2: 8, 3: 7}[t], entry, b""))
            cls, err = SREC, SRECError
        text = b"\n".join(lines) + b"\n"
        distinct.add((kind, len(lines)))
        try:
            p = cls(SCORE.DataIO(text))
            p.decode()
            if kind == "hex":
                got = list(getattr(p, "_HEX__lines"))
            else:
                got = [(l.address, l.data) for l in p.L if l.SRECtype in (1, 2, 3)]
            if sorted(got) != sorted(recs):
                fails.append(({"seed": sd, "sig": kind + ":records"}, "%s records decoded as %s, encoded %s" % (kind, got[:3], recs[:3])))
            if entry is not None and p.entrypoints != [entry]:
                fails.append(({"seed": sd, "sig": kind + ":entry"}, "%s entry point reported %s, encoded %#x" % (kind, p.entrypoints, entry)))
        except Exception as ex:
            fails.append(({"seed": sd, "sig": kind + ":raise:" + sig(ex)}, "%s parser raised %s on a valid stream" % (kind, sig(ex))))
        # a single corrupted checksum digit must be rejected with the format's own error
        k = rng.randrange(len(lines))
        bad = bytearray(lines[k])
        last = bad[-1:]
        bad[-1:] = b"0" if last != b"0" else b"1"
        text2 = b"\n".join(lines[:k] + [bytes(bad)] + lines[k + 1:]) + b"\n"
        try:
            cls(SCORE.DataIO(text2))
            fails.append(({"seed": sd, "sig": kind + ":checksum-accepted"}, "%s line with a wrong checksum accepted: %s" % (kind, bytes(bad))))
        except err:
            pass
        except Exception as ex:
            fails.append(({"seed": sd, "sig": kind + ":checksum-raise:" + sig(ex)}, "%s wrong checksum reported by %s instead of the format error" % (kind, sig(ex))))
        if len(samples) < 3:
            samples.append({"kind": kind, "stream": text.decode()[:120]})
    return len(seeds), fails, samples, len(distinct)


def _loader_case(seed):
    """an ELF executable (i386 / x86-64, little endian) with 1-3 PT_LOAD segments laid out in distinct
    pages, sharing a page, or adjacent mid-page; the file is filled with a position-dependent non-zero
    pattern so a byte taken from a wrong file offset (or zeroed) is seen"""
    from amoco.system.core import load_program
    from contracts.rt import sig
    rng = random.Random(seed)
    x64 = rng.random() < 0.4
    PS = 4096
    layout = rng.choice(("distinct", "sharing", "adjacent", "single"))
    nseg = 1 if layout == "single" else rng.choice((2, 3))
    ehsize, phent = (64, 56) if x64 else (52, 32)
    code = b"\xb8\x44\x33\x22\x11\xc3"          # mov eax,0x11223344 ; ret
    base = (0x400000 if x64 else 0x08048000) + PS * rng.randrange(0, 16)
    off = PS * rng.choice((0, 1)) + rng.choice((0, 0x10, 0x234)) + ehsize + 3 * phent
    va = base + off % PS
    segs = []
    for k in range(nseg):
        fs = rng.choice((7, 0x90, 0x123, 0x1230, PS, 2 * PS + 5))
        last = k == nseg - 1
        ms = fs + (rng.choice((0, 0x40, PS + 3)) if (last or layout == "distinct") else 0)
        segs.append([off, va, fs, ms])
        if layout == "adjacent":
            off, va = off + fs, va + fs
        elif layout == "sharing":
            gap = rng.choice((1, 0x10, 0x1aa))
            off, va = off + fs + gap, va + fs + gap
        else:
            step = ((ms + PS - 1) // PS + rng.choice((1, 2))) * PS + rng.choice((0, 0x10, 0xf10))
            off, va = off + fs + step % PS + PS * rng.choice((0, 1)), va + step + fs
            off += (va - off) % PS            # keep p_offset == p_vaddr modulo the page size
    size = max(o + f for o, v, f, m in segs) + 64
    img = bytearray(((i * 7 + (i >> 8) * 13) % 251) + 1 for i in range(size))
    s0 = segs[0]
    eoff = rng.randrange(0, max(1, s0[2] - len(code))) if s0[2] > len(code) else None
    entry = s0[1] + (eoff or 0)
    if eoff is not None:
        img[s0[0] + eoff:s0[0] + eoff + len(code)] = code
    ident = b"\x7fELF" + bytes([2 if x64 else 1, 1, 1, 0]) + b"\0" * 8
    if x64:
        eh = struct.pack("<HHIQQQIHHHHHH", 2, 62, 1, entry, ehsize, 0, 0, ehsize, phent, nseg, 64, 0, 0)
    else:
        eh = struct.pack("<HHIIIIIHHHHHH", 2, 3, 1, entry, ehsize, 0, 0, ehsize, phent, nseg, 40, 0, 0)
    img[0:ehsize] = ident + eh
    ph = b""
    for o, v, f, m in segs:
        if x64:
            ph += struct.pack("<IIQQQQQQ", 1, 7, o, v, v, f, m, PS)
        else:
            ph += struct.pack("<IIIIIIII", 1, o, v, v, f, m, 7, PS)
    img[ehsize:ehsize + len(ph)] = ph
    img = bytes(img)
    case = {"x64": x64, "layout": layout, "segments": [[hex(o), hex(v), f, m] for o, v, f, m in segs]}
    bad = []
    try:
        p = load_program(img)
    except Exception as ex:
        return case, ["load_program raised %s" % sig(ex)]
    for o, v, f, m in segs:
        expected = img[o:o + f] + b"\0" * (m - f)
        try:
            got = p.state.mmap.read(v, m)
        except Exception as ex:
            bad.append("reading the segment at %#x raised %s" % (v, sig(ex)))
            continue
        if not all(isinstance(x, bytes) for x in got):
            bad.append("segment at %#x: memory holds non-byte parts" % v)
            continue
        g = b"".join(got)
        if g != expected:
            first = [i for i in range(min(len(g), len(expected))) if g[i] != expected[i]]
            where = first[0] if first else min(len(g), len(expected))
            bad.append("segment %s layout: memory differs from the file mapping in the %s part" % (layout, "file-backed" if where < f else "zero-fill"))
    pc = p.state(p.cpu.rip if x64 else p.cpu.eip)
    if not pc._is_cst or int(pc) != entry:
        bad.append("program counter is not the entry point")
    if eoff is not None:
        try:
            i = p.read_instruction(entry)
            if i is None or bytes(i.bytes) != code[:i.length] or i.mnemonic != "MOV":
                bad.append("instruction fetched at the entry point is not the file's")
        except Exception as ex:
            bad.append("read_instruction raised %s" % sig(ex))
    return case, bad


def _loader_rt(tier, seed, only=None):
    n = 150 if tier == "quick" else 5000
    seeds = [only["seed"]] if only is not None else ["loader/%s/%d" % (seed, k) for k in range(n)]
    fails, samples, distinct = [], [], set()
    for sd in seeds:
        case, bad = _loader_case(sd)
        distinct.add((case["x64"], case["layout"], len(case["segments"])))
        for b in bad[:3]:
            fails.append(({"seed": sd, "sig": "loader:" + b[:60]}, "%s: %s" % (case, b)))
        if len(samples) < 3:
            samples.append(case)
    return len(seeds), fails, samples, len(distinct)


def loader_rt(tier):
    return _RtGeneric("F/elf/loaded-image", ["C15"], ["amoco.system.core:load_program", "amoco.system.linux32.x86:OS.load_elf_binary", "amoco.system.linux64.x64:OS.load_elf_binary",
                                                      "amoco.system.elf:Elf.loadsegment", "amoco.system.memory:MemoryMap.write", "amoco.system.memory:MemoryMap.read",
                                                      "amoco.system.core:CoreExec.read_instruction"],
                      _loader_rt, ("contracts.formats:loader_rt", {"tier": tier}),
                      "synthesised i386 / x86-64 ELF executables with 1-3 loadable segments in distinct pages, page-sharing, adjacent; memory image, program counter and entry instruction compared with the file; distinct = (class, layout, segment count)", tier)


def pe_parse(img):
    "independent reading of the PE headers and section table (struct only)"
    lfanew = struct.unpack_from("<I", img, 0x3C)[0]
    assert img[lfanew:lfanew + 4] == b"PE\0\0"
    nsec, = struct.unpack_from("<H", img, lfanew + 6)
    optsz, = struct.unpack_from("<H", img, lfanew + 20)
    opt = lfanew + 24
    magic, = struct.unpack_from("<H", img, opt)
    entry, = struct.unpack_from("<I", img, opt + 16)
    base = struct.unpack_from("<I", img, opt + 28)[0] if magic == 0x10B else struct.unpack_from("<Q", img, opt + 24)[0]
    salign, falign = struct.unpack_from("<II", img, opt + 32)
    secs = []
    tab = opt + optsz
    for k in range(nsec):
        o = tab + 40 * k
        name = img[o:o + 8]
        vs, rva, raw, ptr = struct.unpack_from("<IIII", img, o + 8)
        secs.append(dict(name=name, VirtualSize=vs, RVA=rva, SizeOfRawData=raw, PointerToRawData=ptr, at=o))
    return dict(entry=entry, base=base, salign=salign, falign=falign, secs=secs)


def _pe_case(seed, base_img, intact=False):
    """a variant of a real PE sample: the VirtualSize / SizeOfRawData of the sections that hold no
    import data are rewritten (virtual size larger than the raw data: zero tail; smaller; no raw data)"""
    from amoco.system.core import load_program
    from amoco.system.pe import PE
    from contracts.rt import sig
    rng = random.Random(seed)
    t0 = pe_parse(base_img)
    img = bytearray(base_img)
    secs = t0["secs"]
    edits = []
    for k, s in enumerate(secs):
        nxt = secs[k + 1]["RVA"] if k + 1 < len(secs) else s["RVA"] + 0x100000
        room = nxt - s["RVA"]
        if s["name"].startswith(b".rdata") or s["name"].startswith(b".idata"):
            continue
        raw = s["SizeOfRawData"]
        choice = "keep" if intact else rng.choice(("keep", "keep", "tail", "short", "equal", "noraw"))
        vs, nraw = s["VirtualSize"], raw
        if choice == "tail":
            vs = min(room, raw + rng.choice((1, 0x77, 0x800)))
        elif choice == "short" and raw > 0x40:
            vs = raw // 2 + 1
        elif choice == "equal":
            vs = raw
        elif choice == "noraw" and not s["name"].startswith(b".text"):
            nraw, vs = 0, min(room, max(vs, 0x123))
            if rng.random() < 0.5:
                # a pure .bss as MinGW emits it: no raw data and no raw pointer either
                struct.pack_into("<I", img, s["at"] + 20, 0)
        struct.pack_into("<I", img, s["at"] + 8, vs)
        struct.pack_into("<I", img, s["at"] + 16, nraw)
        edits.append((s["name"].rstrip(b"\0").decode(), choice))
    img = bytes(img)
    t = pe_parse(img)
    case = {"edits": edits}
    bad = []
    try:
        pe = PE(SCORE.DataIO(img))
    except Exception as ex:
        return case, ["PE parser raised %s" % sig(ex)]
    if pe.basemap != t["base"]:
        bad.append("image base %#x, file encodes %#x" % (pe.basemap, t["base"]))
    if pe.entrypoints != [t["base"] + t["entry"]]:
        bad.append("entry points %s, file encodes %#x" % (pe.entrypoints, t["base"] + t["entry"]))
    if len(pe.sections) != len(t["secs"]):
        bad.append("%d sections reported, %d encoded" % (len(pe.sections), len(t["secs"])))
        return case, bad
    for S, s in zip(pe.sections, t["secs"]):
        nm = s["name"].rstrip(b"\0").decode()
        for f in ("VirtualSize", "RVA", "SizeOfRawData", "PointerToRawData"):
            if getattr(S, f) != s[f]:
                bad.append("section %s: %s = %#x, file encodes %#x" % (nm, f, getattr(S, f), s[f]))
        vs, raw, ptr, rva = s["VirtualSize"], s["SizeOfRawData"], s["PointerToRawData"], s["RVA"]
        if vs > 0:
            for k in (0, vs - 1):
                got = pe.locate(rva + k)
                if got[0] is not S or got[1] != k:
                    bad.append("locate(section %s + %#x) does not give that section and offset" % (nm, k))
            got = pe.locate(rva + vs)
            if got[0] is S:
                bad.append("locate(one past the end of section %s) still gives the section" % nm)
        if min(vs, raw) > 0:
            k = rng.randrange(min(vs, raw))
            try:
                fo = pe.getfileoffset(t["base"] + rva + k)
                if fo != ptr + k:
                    bad.append("getfileoffset(section %s + %#x) = %#x, the file maps it to %#x" % (nm, k, fo, ptr + k))
            except Exception as ex:
                bad.append("getfileoffset raised %s" % sig(ex))
        try:
            m = pe.loadsegment(S)
            (a, data), = m.items()
            if a != t["base"] + rva:
                bad.append("section %s mapped at %#x, the file places it at %#x" % (nm, a, t["base"] + rva))
            fb = img[ptr:ptr + raw]
            if bytes(data[:len(fb)]) != fb:
                bad.append("section %s: mapped bytes differ from the file's raw data" % nm)
            if len(data) < vs:
                bad.append("section %s: %d bytes mapped, virtual size %d" % (nm, len(data), vs))
            if vs > raw and any(bytes(data[raw:vs])):
                bad.append("section %s: bytes beyond the raw data (virtual size > raw size) are not zero" % nm)
        except Exception as ex:
            bad.append("loadsegment(%s) raised %s" % (nm, sig(ex)))
    # the loaded task
    try:
        p = load_program(img)
    except Exception as ex:
        bad.append("load_program raised %s" % sig(ex))
        return case, bad
    for s in t["secs"]:
        nm = s["name"].rstrip(b"\0").decode()
        n = s["VirtualSize"]
        if n == 0:
            continue
        try:
            parts = p.state.mmap.read(t["base"] + s["RVA"], n)
        except Exception as ex:
            bad.append("reading section %s of the task raised %s" % (nm, sig(ex)))
            continue
        expected = img[s["PointerToRawData"]:s["PointerToRawData"] + min(n, s["SizeOfRawData"])].ljust(n, b"\0")
        pos = 0
        for part in parts:
            ln = len(part)
            if isinstance(part, bytes) and part != expected[pos:pos + ln]:
                first = pos + [j for j in range(ln) if part[j] != expected[pos + j]][0]
                where = "raw data" if first < s["SizeOfRawData"] else "zero tail"
                bad.append("task memory of section %s differs from the file in the %s" % (nm, where))
                break
            pos += ln
    pc = p.state(p.cpu.eip)
    if not pc._is_cst or int(pc) != t["base"] + t["entry"]:
        bad.append("program counter is not the entry point")
    return case, bad


def _pe_rt(tier, seed, only=None, prop="C14"):
    from contracts.rt import sig
    n = 12 if tier == "quick" else 300
    base_img = open(os.path.join(SAMPLES, "x86", "puttygen.exe"), "rb").read()
    seeds = [only["seed"]] if only is not None else ["pe/intact"] + ["pe/%s/%d" % (seed, k) for k in range(n)]
    fails, samples, distinct = [], [], set()
    for sd in seeds:
        case, bad = _pe_case(sd, base_img, intact=(sd == "pe/intact"))
        distinct.add(tuple(tuple(e) for e in case["edits"]))
        loading = ("mapped", "task memory", "program counter", "bytes beyond", "load_program", "loadsegment", "reading section")
        bad = [b for b in bad if any(w in b for w in loading) == (prop == "C15")]
        for b in bad[:3]:
            fails.append(({"seed": sd, "sig": "pe:" + b[:50]}, "%s: %s" % (case, b)))
        if len(samples) < 3:
            samples.append(case)
    return len(seeds), fails, samples, len(distinct)


def pe_rt(tier, prop):
    return _RtGeneric("F/pe/sample-variants", [prop], ["amoco.system.pe:PE.__init__", "amoco.system.pe:SectionHdr", "amoco.system.pe:PE.locate", "amoco.system.pe:PE.getfileoffset",
                                                        "amoco.system.pe:PE.loadsegment", "amoco.system.win32.x86:OS.load_pe_binary", "amoco.system.core:load_program"],
                      (lambda tier_, seed_, only=None: _pe_rt(tier_, seed_, only, prop)), ("contracts.formats:pe_rt", {"tier": tier, "prop": prop}),
                      "the PE sample puttygen.exe and variants of it with rewritten VirtualSize / SizeOfRawData of the sections without import data (zero tail, short, equal, no raw data); headers and section table against an independent struct-based reading; distinct = different edit combinations", tier)


def elf_rt(tier):
    return _RtGeneric("F/elf/synthesised-images", ["C14"], ["amoco.system.elf:Elf.__init__", "amoco.system.elf:Ehdr.unpack", "amoco.system.elf:Phdr", "amoco.system.elf:Shdr",
                                                            "amoco.system.elf:Elf.getfileoffset", "amoco.system.elf:Elf.data"],
                      _elf_rt, ("contracts.formats:elf_rt", {"tier": tier}),
                      "synthesised ELF images: class x byte order x 1-4 program headers x 0-3 sections at varying table positions; distinct = different (class, order, counts) shapes", tier)


def records_rt(tier):
    return _RtGeneric("F/hex-srec/generated-streams", ["C14"], ["amoco.system.structs.HEX:HEX", "amoco.system.structs.HEX:HEXline.set", "amoco.system.structs.SREC:SREC", "amoco.system.structs.SREC:SRECline.set"],
                      _records_rt, ("contracts.formats:records_rt", {"tier": tier}),
                      "generated Intel-HEX / S-record streams (extended addresses, 1-4 data records, entry records) and the same stream with one checksum digit changed", tier)


def obligations(prop, tier, seed):
    obs = []
    if prop == "C20":
        for path in sample_files():
            obs.append(c20(tier, os.path.relpath(path, SAMPLES)))
        obs.append(c20(tier, "<random>"))
    if prop == "C14":
        for n in (1, 2, 3):
            obs.append(elf_getinfo(n=n))
        obs.append(elf_rt(tier))
        obs.append(records_rt(tier))
        obs.append(pe_rt(tier, "C14"))
    if prop == "C15":
        for k in (8, 12, 16) if tier == "quick" else range(8, 17):
            obs.append(elf_loadsegment(k=k))
            obs.append(elf_loadsegment(k=k, congruent=False))
        obs.append(loader_rt(tier))
        obs.append(pe_rt(tier, "C15"))
    return obs
