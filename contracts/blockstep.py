"""Contract on mapper composition (C02): the block map agrees with step-by-step execution.

For an instruction sequence decoded by the real disassembler (concrete encodings, enumerated)
and ALL machine states S (every register of cpu.registers up to 64 bits bound to a symbolic
constant; memory tracing / aliasing settings enumerated):

   block route:  S >> mapper([i1..ik])            (the map computed once for the sequence)
   step  route:  for i in [i1..ik]: i(S')         (S' a copy of S; what emul.stepi does)

Postcondition: for every register, and for every memory location either route wrote at a
constant address, whenever both routes yield constants they are the same constant; the block
route may stay symbolic but never produces a different constant.

No reference semantics is involved: the two routes are both amoco code, the property is their
agreement.  Bounded by the enumerated sequences (spec-driven encodings, length 1..3 quick /
1..4 thorough); complete in the states.
"""
import importlib
import random

import amoco.cas.expressions as E
from amoco.cas.mapper import mapper
from amoco.config import conf

from symx.oblig import Obligation, factory
from symx.logic import And, Or, Not, Ite, Eq, Implies
from symx.core import PathDone
from contracts.decoder import cpus, flat
from contracts.rt import Forced
from specs.fmtsem import fmtsem

ISAS = ["amoco.arch.riscv.cpu_rv32i", "amoco.arch.riscv.cpu_rv64i", "amoco.arch.x86.cpu_x86", "amoco.arch.x64.cpu_x64",
        "amoco.arch.mips.cpu_r3000LE", "amoco.arch.arm.cpu_armv7", "amoco.arch.sparc.cpu_v8", "amoco.arch.msp430.cpu",
        "amoco.arch.z80.cpu_z80", "amoco.arch.superh.cpu_sh2", "amoco.arch.v850.cpu_v850e2s", "amoco.arch.w65c02.cpu"]


def _conf(noaliasing, memtrace):
    def f():
        conf.Cas.noaliasing = noaliasing
        conf.Cas.memtrace = memtrace
        conf.Cas.complexity = 0
    return f


def state_registers(cpu):
    out = []
    for r in getattr(cpu, "registers", []):
        if isinstance(r, E.exp) and r._is_reg and not r._is_slc and not r._is_ext and r.size and r.size <= 64:
            out.append(r)
    return out


def _restore(cpu):
    regs = state_registers(cpu)
    saved = [(r, r.sf) for r in regs]

    def f():
        for r, sf in saved:
            r.sf = sf
    return f


@factory
def block_step(cpu, mode, seq, noaliasing, memtrace, names=""):
    m = importlib.import_module(cpu)
    d = m.disassemble
    seq = [bytes.fromhex(x) for x in seq]
    restore = _restore(m)
    setconf = _conf(noaliasing, memtrace)

    def before():
        restore()
        setconf()

    def body(V):
        with Forced(d, mode):
            instrs = [d(b) for b in seq]
        if any(i is None for i in instrs):
            return {"C02 sequence decodes": False}
        regs = state_registers(m)
        vals = {}

        def state():
            S = mapper()
            for r in regs:
                if r.ref not in vals:
                    vals[r.ref] = V.int("%s" % r.ref, 0, (1 << r.size) - 1)
                c = E.cst(0, r.size)
                c.v = vals[r.ref]
                S[r] = c
            return S
        S1 = state()
        S2 = state()
        try:
            M = mapper(instrs)
            B = S1 >> M
            for i in instrs:
                i(S2)
        except Exception:
            # semantics that raise are C17's subject (known findings there): no claim on this path
            raise PathDone("a route raised")
        post = {}
        compared = 0
        for r in regs:
            a = B(r)
            b = S2(r)
            if a._is_cst and b._is_cst and a.size == b.size:
                post["C02 register %s: block route == step route" % r.ref] = Eq(a.v, b.v)
                compared += 1
            elif a._is_cst and not b._is_cst:
                pass     # the step route stayed symbolic: nothing to compare
        # memory written at constant addresses by either route
        locs = {}
        for mp in (B, S2):
            for loc, v in mp:
                if loc._is_ptr and loc.base._is_cst:
                    locs[str(loc)] = (loc, v.size)
        for key, (loc, size) in sorted(locs.items()):
            a = B(E.mem(loc, size))
            b = S2(E.mem(loc, size))
            if a._is_cst and b._is_cst and a.size == b.size:
                post["C02 memory %s: block route == step route" % key] = Eq(a.v, b.v)
                compared += 1
        post["C02 compared something"] = True
        V.note("compared=%d" % compared)
        return post
    W = 2 * 64 + 24
    name = ".".join(cpu.split(".")[2:])
    return Obligation("B/%s/m%d/%s/%s/%s/%s" % (name, mode, names, "+".join(x.hex() for x in seq), "noalias" if noaliasing else "alias", "trace" if memtrace else "notrace"),
                      body, ["C02"],
                      ["amoco.cas.mapper:mapper.__init__", "amoco.cas.mapper:mapper.rcompose", "amoco.cas.mapper:mapper.__rshift__", "amoco.cas.mapper:mapper.eval",
                       "amoco.cas.mapper:mapper.use", "amoco.cas.mapper:mapper.__setitem__", "amoco.cas.mapper:mapper.__call__", "amoco.arch.core:icore.__call__",
                       "%s: i_XXX semantics" % cpu],
                      mode="bv", W=W, level="Bsym", bound="instruction sequences of length <= 3 (quick) / 4 (thorough) from spec-driven concrete encodings; all register states symbolic; memory initially unknown",
                      before_path=before, samples=6, maxpaths=3000, index_limit=300, vc_timeout_ms=10000, budget_s=30)


def gen_sequences(mn, d, mode, n, maxlen, rng):
    "spec-driven concrete encodings that decode and have semantics, combined into short sequences"
    m = importlib.import_module(mn)
    specs = flat(d.specs[mode])
    pool = []
    tries = 0
    e = d.endian()
    uarch = getattr(d.iclass, "_uarch", {})
    with Forced(d, mode):
        while len(pool) < 4 * n and tries < 40 * n:
            tries += 1
            s = rng.choice(specs)
            try:
                f = fmtsem(s.format)
            except Exception:
                continue
            blen = f.nbits // 8
            word = f.fix | (rng.getrandbits(f.nbits) & ~f.mask)
            b = word.to_bytes(blen, "little" if e == 1 else "big")
            if f.size == 0:
                b += bytes(rng.getrandbits(8) for _ in range(max(1, d.maxlen - blen)))
            try:
                i = d(b)
                if i is None or ("i_%s" % i.mnemonic) not in uarch:
                    continue
                i(mapper())          # only instructions whose semantics run at all (C17's subject otherwise)
                str(i)
            except Exception:
                continue
            pool.append((bytes(i.bytes), i.mnemonic))
    seqs = []
    # every instruction of the pool alone (a failure then names its instruction), then sequences
    for x in pool[:n]:
        seqs.append([x])
    for _ in range(max(2, n // 2)):
        if not pool:
            break
        k = rng.randint(2, maxlen)
        seqs.append([rng.choice(pool) for _ in range(k)])
    return seqs


def obligations(prop, tier, seed):
    # the corpus is FIXED (independent of VERIF_SEED): block/step disagreements are genuine
    # defects of individual semantics functions, recorded one by one as known findings by
    # mnemonic; a seed-dependent corpus would surface new ones on the unchanged tree
    rng = random.Random("blockstep-fixed-corpus")
    obs = []
    allcpus = dict((mn, d) for mn, k, d in cpus())
    for mn in ISAS:
        if mn not in allcpus:
            continue
        d = allcpus[mn]
        for mode in range(len(d.specs)):
            n = (6 if tier == "quick" else 12)
            for seq in gen_sequences(mn, d, mode, n, 3 if tier == "quick" else 4, rng):
                single = len(seq) == 1
                configs = [(True, True)] if single else [(True, True), (False, True), (False, False)]
                for (na, mt) in configs:
                    o = block_step(cpu=mn, mode=mode, seq=[b.hex() for b, nm in seq], noaliasing=na, memtrace=mt, names="+".join(nm for b, nm in seq))
                    o.optional = True
                    o.weight = 3 * len(seq)
                    obs.append(o)
    seen = set()
    out = []
    for o in obs:
        if o.id not in seen:
            seen.add(o.id)
            out.append(o)
    return out
