"""Obligations: a contract clause on a real function, discharged path by path.

An Obligation wraps a `body(V)` written once against a value provider V:
  * SymV      -- inputs are symbolic (SInt / SymBytes); the verifier explores every path of
                 the real code and sends one VC per (clause, path) to the solver;
  * ConcreteV -- inputs are plain Python ints / bytes (from a counter-model, or sampled);
                 the same body then runs the real code natively and evaluates the same
                 postcondition as a Python bool (replay, CPython cross-check).
"""
import importlib
import json
import re
import os
import random
import subprocess
import tempfile
import time
import traceback

import z3

from . import core
from .core import (Ctx, SInt, SBool, SymBytes, PathDone, OutOfReach, EngineError, PreFalse,
                   explore, to_z3_bool)


class Obligation(object):
    def __init__(self, oid, body, props, fuc, mode="int", W=None, level="P", logic=None,
                 maxpaths=20000, index_limit=64, hash_limit=300, before_path=None,
                 bound=None, samples=12, expect="proved", rlimit=0, vc_timeout_ms=60000,
                 setup=None, budget_s=600):
        self.budget_s = budget_s
        self.id = oid
        self.body = body
        self.props = list(props)
        self.fuc = list(fuc)          # functions under contract (dotted paths in /repo)
        self.mode = mode
        self.W = W
        self.level = level            # 'P' | 'Bsym' | 'Brt'
        self.logic = logic
        self.maxpaths = maxpaths
        self.index_limit = index_limit
        self.hash_limit = hash_limit
        self.before_path = before_path
        self.bound = bound            # text describing the bound for Bsym/Brt
        self.samples = samples        # concrete cross-check samples
        self.expect = expect          # 'proved' | 'refuted' (canaries)
        self.rlimit = rlimit
        self.vc_timeout_ms = vc_timeout_ms
        self.setup = setup
        self.factory = None
        self.params = None

    def ref(self):
        return {"factory": self.factory, "params": self.params, "id": self.id, "tag": getattr(self, "tag", None)}


def factory(fn):
    "decorator: obligations built by fn(**params) remember how to be rebuilt (for replay)"
    modname = fn.__module__

    def wrapper(**params):
        ob = fn(**params)
        ob.factory = "%s:%s" % (modname, fn.__name__)
        ob.params = params
        return ob
    wrapper.__name__ = fn.__name__
    wrapper.__wrapped__ = fn
    return wrapper


def rebuild(ref):
    mod, fn = ref["factory"].split(":")
    m = importlib.import_module(mod)
    return getattr(m, fn)(**ref["params"])


# ---------------------------------------------------------------------------------------
# providers
# ---------------------------------------------------------------------------------------

class SymV(object):
    symbolic = True

    def __init__(self, ctx):
        self.ctx = ctx

    def int(self, name, lo, hi):
        return self.ctx.fresh(name, lo, hi)

    def bool(self, name):
        v = self.ctx.fresh(name, 0, 1)
        return v == 1

    def bytes(self, name, n):
        items = [self.ctx.fresh("%s[%d]" % (name, k), 0, 255) for k in range(n)]
        self.ctx.byte_vars[name] = n
        return SymBytes(items)

    def assume(self, c):
        self.ctx.assume(c)

    def note(self, s):
        self.ctx.notes.append(s)


class ConcreteV(object):
    symbolic = False

    def __init__(self, assign=None, rng=None):
        self.assign = dict(assign or {})
        self.rng = rng
        self.used = {}

    def _get(self, name, lo, hi):
        if name in self.assign:
            v = int(self.assign[name])
        elif self.rng is not None:
            r = self.rng
            k = r.random()
            if k < 0.12:
                v = lo
            elif k < 0.24:
                v = hi
            elif k < 0.32:
                v = min(hi, lo + 1)
            elif k < 0.40:
                v = max(lo, hi - 1)
            elif k < 0.50:
                v = (lo + hi) // 2 + r.choice((0, 1, -1)) if hi - lo > 2 else lo
            elif k < 0.65 and hi - lo > 4:
                # value with few bits set / near power of two
                span = (hi - lo).bit_length()
                v = lo + min(hi - lo, (1 << r.randrange(span)) + r.choice((0, -1, 1)))
                v = max(lo, min(hi, v))
            else:
                v = r.randint(lo, hi)
        else:
            v = lo   # model completion: variable irrelevant on that path
        if not (lo <= v <= hi):
            raise PreFalse("%s=%d outside [%d,%d]" % (name, v, lo, hi))
        self.used[name] = v
        return v

    def int(self, name, lo, hi):
        return self._get(name, lo, hi)

    def bool(self, name):
        return self._get(name, 0, 1) == 1

    def bytes(self, name, n):
        return bytes(self._get("%s[%d]" % (name, k), 0, 255) for k in range(n))

    def assume(self, c):
        if not c:
            raise PreFalse("precondition false")

    def note(self, s):
        pass


# ---------------------------------------------------------------------------------------
# verification of one obligation
# ---------------------------------------------------------------------------------------

class _Stop(Exception):
    pass


_TAG = re.compile(r"^C\d\d ")


def _clauses(post, tag=None):
    """clauses of a postcondition; a clause named 'Cnn ...' belongs to property Cnn only and is
    dropped when the obligation is checked on behalf of another property"""
    if isinstance(post, dict):
        items = list(post.items())
    else:
        items = [("post", post)]
    if tag:
        items = [(k, v) for k, v in items if not _TAG.match(k) or k.startswith(tag + " ")]
    return items


def _model_inputs(model, vars_, mode):
    out = {}
    for name, (v, lo, hi) in vars_.items():
        mv = model.eval(v, model_completion=True)
        out[name] = mv.as_long() if mode == "int" else mv.as_signed_long()
    return out


CVC5 = "/usr/bin/cvc5"


def _cvc5(solver, timeout_s=30):
    "second opinion on a VC the in-process z3 could not decide"
    try:
        txt = solver.to_smt2()
        with tempfile.NamedTemporaryFile("w", suffix=".smt2", delete=False, dir="/var/tmp") as f:
            f.write("(set-logic ALL)\n" + txt)
            name = f.name
        try:
            p = subprocess.run([CVC5, "--lang=smt2", "--tlimit=%d" % (timeout_s * 1000), name],
                               capture_output=True, text=True, timeout=timeout_s + 5)
            out = p.stdout.strip().split("\n")[0] if p.stdout else ""
        finally:
            os.unlink(name)
        return out
    except Exception as e:  # pragma: no cover
        return "error:%s" % e


def _solve(ob, pc, pz):
    """pc and not pz with the in-process z3; nonlinear queries are either instant or hopeless
    depending on the heuristics' luck, so an `unknown` is retried with other random seeds and
    a growing share of the VC budget before it is handed to cvc5"""
    total = ob.vc_timeout_ms
    plan = [(0, max(1000, total // 8)), (7, max(1000, total // 4)), (23, max(1000, total // 2))]
    v = z3.unknown
    s = None
    for seed, tmo in plan:
        s = z3.SolverFor(ob.logic) if ob.logic else z3.Solver()
        s.set("timeout", tmo)
        if seed:
            s.set("random_seed", seed)
        s.add(*pc)
        s.add(z3.Not(pz))
        v = s.check()
        if v != z3.unknown:
            break
    return v, s


def verify(ob, tracer=None):
    """explore every path of ob.body on symbolic inputs; returns a result dict"""
    t0 = time.time()
    res = {"id": ob.id, "props": ob.props, "level": ob.level, "fuc": ob.fuc, "mode": ob.mode,
           "paths": 0, "vcs": 0, "discharged": 0, "solver_s": 0.0, "backend": {},
           "verdict": None, "reason": None, "inputs": None, "clause": None,
           "bound": ob.bound, "expect": ob.expect, "ref": ob.ref(), "raised_paths": 0,
           "sample_path": None}
    if ob.setup:
        ob.setup()

    def body(ctx):
        return ob.body(SymV(ctx))

    refuted = None
    undecided = None
    try:
        for r in explore(body, mode=ob.mode, W=ob.W, logic=ob.logic, maxpaths=ob.maxpaths,
                         index_limit=ob.index_limit, hash_limit=ob.hash_limit,
                         rlimit=ob.rlimit, before_path=ob.before_path, timeout_ms=ob.vc_timeout_ms):
            res["paths"] += 1
            if time.time() - t0 > ob.budget_s:
                raise OutOfReach("time budget of %ds exhausted after %d paths" % (ob.budget_s, res["paths"]))
            if r.exc is not None:
                res["raised_paths"] += 1
                clauses = [("total(no exception): %s: %s" % (type(r.exc).__name__, str(r.exc)[:200]), False)]
            else:
                clauses = _clauses(r.post, getattr(ob, "tag", None))
            if res["sample_path"] is None and r.exc is None:
                res["sample_path"] = {"decisions": len(r.decisions),
                                      "path_condition": [str(z3.simplify(c))[:160] for c in r.pc[:6]],
                                      "clauses": [c[0] for c in clauses]}
            zclauses = []
            for cname, post in clauses:
                res["vcs"] += 1
                try:
                    pz = to_z3_bool(post)
                except TypeError as e:
                    pz = z3.BoolVal(False)
                    cname = "%s (ill-typed postcondition: %s)" % (cname, e)
                pz = z3.simplify(pz)
                if z3.is_true(pz):
                    res["discharged"] += 1
                    res["backend"]["simplifier"] = res["backend"].get("simplifier", 0) + 1
                    continue
                zclauses.append((cname, pz))
            if len(zclauses) > 1 and not os.environ.get("VERIF_NOBATCH"):
                # all clauses of the path at once; on success every one of them is discharged
                s = z3.SolverFor(ob.logic) if ob.logic else z3.Solver()
                s.set("timeout", ob.vc_timeout_ms)
                s.add(*r.pc)
                s.add(z3.Not(z3.And(*[c[1] for c in zclauses])))
                ts = time.time()
                v = s.check()
                res["solver_s"] += time.time() - ts
                if v == z3.unsat:
                    res["discharged"] += len(zclauses)
                    res["backend"]["z3"] = res["backend"].get("z3", 0) + len(zclauses)
                    zclauses = []
            for cname, pz in zclauses:
                ts = time.time()
                v, s = _solve(ob, r.pc, pz)
                res["solver_s"] += time.time() - ts
                be = "z3"
                if v == z3.unknown and time.time() - t0 < ob.budget_s:
                    ts = time.time()
                    out = _cvc5(s, timeout_s=max(5, min(30, ob.vc_timeout_ms // 1000)))
                    res["solver_s"] += time.time() - ts
                    if out == "unsat":
                        v = z3.unsat
                        be = "cvc5"
                    # a cvc5 'sat' has no model here: stays undecided
                if v == z3.unsat:
                    res["discharged"] += 1
                    res["backend"][be] = res["backend"].get(be, 0) + 1
                elif v == z3.sat:
                    if refuted is None:
                        refuted = {"clause": cname, "inputs": _model_inputs(s.model(), r.vars, ob.mode),
                                   "path": [[d[0], d[1] if isinstance(d[1], (bool, int)) else str(d[1])] for d in r.decisions][:50]}
                        raise _Stop   # one counterexample is enough
                else:
                    if undecided is None:
                        undecided = "solver unknown on clause %s (%s)" % (cname, s.reason_unknown())
    except _Stop:
        pass
    except OutOfReach as e:
        undecided = "OutOfReach: %s" % (e,)
    except EngineError as e:
        res["verdict"] = "engine-error"
        res["reason"] = "EngineError: %s" % (e,)
    finally:
        Ctx.cur = None
        if getattr(ob, "teardown", None):
            ob.teardown()
    if res["verdict"] is None:
        if refuted is not None:
            res["verdict"] = "refuted"
            res["clause"] = refuted["clause"]
            res["inputs"] = refuted["inputs"]
            res["path"] = refuted["path"]
        elif undecided is not None:
            res["verdict"] = "undecided"
            res["reason"] = undecided
        elif res["vcs"] == 0 and (res["paths"] > 0 and getattr(ob, "tag", None) or getattr(ob, "optional", False)):
            res["verdict"] = "noclaim"     # no clause of this property on any path (e.g. result is a vec/top),
                                           # or a seeded obligation whose every path was abandoned without a claim
        elif res["vcs"] == 0:
            res["verdict"] = "engine-error"
            res["reason"] = "zero verification conditions generated"
        else:
            res["verdict"] = "proved"
    res["wall_s"] = round(time.time() - t0, 3)
    res["solver_s"] = round(res["solver_s"], 3)
    return res


# ---------------------------------------------------------------------------------------
# concrete runs of the same body (cross-check, sampler, replay)
# ---------------------------------------------------------------------------------------

def run_concrete(ob, assign=None, rng=None):
    """returns (status, detail, inputs): status in 'ok' | 'fail' | 'pre-false'"""
    V = ConcreteV(assign=assign, rng=rng)
    if ob.setup:
        ob.setup()
    if ob.before_path:
        ob.before_path()
    try:
        try:
            post = ob.body(V)
        finally:
            if getattr(ob, "teardown", None):
                ob.teardown()
    except PreFalse as e:
        return "pre-false", str(e), V.used
    except (OutOfReach, PathDone) as e:
        return "pre-false", "harness: %s" % e, V.used
    except Exception as e:
        return "fail", "raised %s: %s" % (type(e).__name__, str(e)[:300]), V.used
    bad = []
    for cname, p in _clauses(post, getattr(ob, "tag", None)):
        if not bool(p):
            bad.append(cname)
    if bad:
        return "fail", "clause(s) false: %s" % ", ".join(bad), V.used
    return "ok", "", V.used


def sample(ob, n, seed):
    "n seeded concrete evaluations of the contract; returns (evaluated, failures)"
    rng = random.Random("%s/%s" % (seed, ob.id))
    done = 0
    fails = []
    tries = 0
    while done < n and tries < 30 * n + 30:
        tries += 1
        st, detail, used = run_concrete(ob, rng=rng)
        if st == "pre-false":
            continue
        done += 1
        if st == "fail":
            fails.append({"inputs": used, "detail": detail})
            break
    return done, fails
