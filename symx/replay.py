"""Native replay of one counterexample: the obligation's body is rebuilt from its factory and
run on plain Python ints in a fresh interpreter WITHOUT shims, on the current /repo tree."""
import json
import sys

from .oblig import rebuild, run_concrete


def replay(ref, inputs):
    ob = rebuild(ref)
    ob.tag = ref.get("tag")
    kind = getattr(ob, "kind", "sym")
    if kind == "rt":
        st, detail = ob.replay_rt(inputs)
        return {"status": st, "detail": detail, "obligation": ob.id}
    st, detail, used = run_concrete(ob, assign=inputs)
    return {"status": st, "detail": detail, "inputs": used, "obligation": ob.id}


def main(argv):
    if argv and argv[0] == "--stdin":
        d = json.loads(sys.stdin.read())
    else:
        d = json.load(open(argv[0]))
    if d.get("inputs") is None:
        print(json.dumps({"status": "no-input", "detail": "no failing input recorded: obligation %s; verifier output: %s" % (d.get("obligation"), d.get("verifier_output"))}))
        return 1
    r = replay(d["ref"], d["inputs"])
    print(json.dumps(r, default=str))
    return 1 if r["status"] == "fail" else 0


if __name__ == "__main__":
    sys.exit(main(sys.argv[1:]))
