"""Contracts on amoco.cas.mapper: aliasing through symbolic pointers (C09), block map versus
step-by-step execution (C02), merge over-approximates (C19), maps are values (C13, map part).

C09: a load/store program is written with the mapper API over pointer registers p, q (with
offsets and sizes 8..64 bits, both endiannesses, aliasing assumed or not).  The symbolic map M is
then instantiated by amoco itself, S >> M, where S binds the pointers to SYMBOLIC constants
(every placement: equal, partially overlapping, disjoint -- inside a window where the initial
memory is defined) and gives the other registers and the initial memory symbolic values.
Postcondition: every loaded register and every byte of the final memory equal the byte-level
sequential execution of the program (an if-then-else chain over the stores, built from the
program, never from the map).  Under the no-aliasing assumption: for assignments in which p and
q are far apart.

C02: for instruction sequences decoded by the real disassembler, the block route
(S >> mapper(seq)) and the step route (each instruction applied in turn to a copy of S) agree on
every register and on the touched memory whenever both yield constants -- for ALL states S.
"""
import importlib
import random

import amoco.cas.expressions as E
from amoco.cas.mapper import mapper, merge
from amoco.config import conf

from symx.oblig import Obligation, factory
from symx.logic import And, Or, Not, Ite, Eq, Implies
from symx.core import SInt
from specs.den import den, NoClaim, Malformed

BASE = 0x1000
SPAN = 8     # pointer values range over [BASE, BASE+SPAN]: every relative placement of accesses <= 4 bytes with offsets in [-1,4]
WIN_LO = BASE - 16
WIN_HI = BASE + 48


def _conf(noaliasing, memtrace, complexity=0):
    def f():
        conf.Cas.noaliasing = noaliasing
        conf.Cas.memtrace = memtrace
        conf.Cas.complexity = complexity
    return f


class ByteMem(object):
    "byte-level sequential memory: initial bytes + ordered stores (the oracle)"

    def __init__(self, init):
        self.init = init          # list of byte values for [WIN_LO, WIN_HI)
        self.stores = []          # (addr, byte value)

    def store(self, addr, n, value, endian):
        for j in range(n):
            k = j if endian == 1 else n - 1 - j
            self.stores.append((addr + j, (value >> (8 * k)) % 256))

    def byte(self, x):
        v = None
        # initial content
        v = 0
        for i, b in enumerate(self.init):
            v = Ite(x == WIN_LO + i, b, v)
        for (a, b) in self.stores:
            v = Ite(x == a, b, v)
        return v

    def load(self, addr, n, endian):
        r = 0
        for j in range(n):
            k = j if endian == 1 else n - 1 - j
            r = r + (self.byte(addr + j) << (8 * k))
        return r


def _interp(post, tag, r, width, expected):
    """r is a constant, or a value still carrying its ordered list of possibly-aliasing stores:
    interpreted by replaying them (specs/den.py), it must equal the byte-level execution"""
    if not isinstance(r, E.exp) or r.size != width:
        post["C09 %s: a %d-bit expression" % (tag, width)] = False
        return
    side = []
    try:
        d = den(r, {}, None, side)
    except NoClaim as ex:
        post["C09 %s: fully determined once the pointers have values (%s)" % (tag, ex)] = False
        return
    except Malformed as ex:
        post["C09 %s: well formed (%s)" % (tag, ex)] = False
        return
    post["C09 %s: every byte read is determined" % tag] = And(side)
    post["C09 %s equals the byte-level execution" % tag] = Eq(d, expected)


@factory
def aliasing(prog, noaliasing, memtrace, endian, pslice=None):
    """prog: list of ('st', ptr, off, nbytes, srcreg) | ('ld', dstreg, ptr, off, nbytes);
    pslice=(lo,hi): the obligation covers the placements with p in [BASE+lo, BASE+hi] (the slices
    partition the window; they only spread the path tree over the workers)"""
    prog = [tuple(x) for x in prog]
    plo, phi = pslice if pslice else (0, SPAN)

    def body(V):
        regs = {n: E.reg(n, 32) for n in ("p", "q", "r0", "r1", "x0", "x1", "x2")}
        vals = {}
        # pointers: every relative placement inside the window
        vals["p"] = V.int("p", BASE + plo, BASE + phi)
        vals["q"] = V.int("q", BASE, BASE + (SPAN if not noaliasing else 24))
        if noaliasing:
            # distinct pointers do not overlap (the claim's restriction)
            V.assume(Or(vals["q"] - vals["p"] >= 12, vals["p"] - vals["q"] >= 12))
        for n in ("r0", "r1"):
            vals[n] = V.int(n, 0, (1 << 32) - 1)
        init = V.bytes("m", WIN_HI - WIN_LO)
        # --- the symbolic map, built with the API
        M = mapper()
        for ins in prog:
            if ins[0] == "st":
                _, ptr, off, n, src = ins
                M[E.mem(regs[ptr] + off, 8 * n, endian=endian)] = M(regs[src][0:8 * n])
            else:
                _, dst, ptr, off, n = ins
                M[regs[dst]] = M(E.mem(regs[ptr] + off, 8 * n, endian=endian)).zeroextend(32)
        # --- the concrete state: pointers, data registers, initial memory
        S = mapper()
        for n in ("p", "q", "r0", "r1"):
            c = E.cst(0, 32)
            c.v = vals[n]
            S[regs[n]] = c
        for k in range(0, WIN_HI - WIN_LO, 8):
            c = E.cst(0, 64)
            v = 0
            for j in range(8):
                v = v + (init[k + j] << (8 * j))
            c.v = v
            S[E.mem(E.cst(WIN_LO + k, 32), 64)] = c
        MS = S >> M
        # --- the oracle: byte-level sequential execution
        bm = ByteMem(list(init))
        rv = dict(vals)
        for n in ("x0", "x1", "x2"):
            rv[n] = None
        for ins in prog:
            if ins[0] == "st":
                _, ptr, off, n, src = ins
                bm.store(rv[ptr] + off, n, rv[src] % (1 << (8 * n)), endian)
            else:
                _, dst, ptr, off, n = ins
                rv[dst] = bm.load(rv[ptr] + off, n, endian)
        post = {}
        for ins in prog:
            if ins[0] != "ld":
                continue
            dst = ins[1]
            r = MS(regs[dst])
            _interp(post, "loaded %s" % dst, r, 32, rv[dst])
        # final memory, 8 bytes around each pointer base
        for a in range(BASE - 8, BASE + 32, 8):
            r = MS(E.mem(E.cst(a, 32), 64))
            _interp(post, "final memory at %#x" % a, r, 64, bm.load(a, 8, 1))
        return post

    def show(ins):
        if ins[0] == "st":
            return "st[%s%+d,%d]=%s" % (ins[1], ins[2], ins[3], ins[4])
        return "%s=ld[%s%+d,%d]" % (ins[1], ins[2], ins[3], ins[4])
    oid = "A/%s/%s/%s/%s%s" % (";".join(show(i) for i in prog), "noalias" if noaliasing else "alias", "trace" if memtrace else "notrace", "le" if endian == 1 else "be",
                               "" if pslice is None else "/p=%d-%d" % tuple(pslice))
    return Obligation(oid, body, ["C09"],
                      ["amoco.cas.mapper:mapper.__setitem__", "amoco.cas.mapper:mapper.M", "amoco.cas.mapper:mapper.aliasing", "amoco.cas.mapper:mapper._Mem_read",
                       "amoco.cas.mapper:mapper._Mem_write", "amoco.cas.mapper:mapper.rcompose", "amoco.cas.mapper:mapper.__rshift__", "amoco.cas.expressions:mem.eval",
                       "amoco.cas.expressions:ptr.eval", "amoco.system.memory:MemoryMap.read", "amoco.system.memory:MemoryMap.write"],
                      mode="bv", W=96, level="Bsym", bound="programs of <= 4 accesses over two pointers, offsets in {0,1,3,4,-1}, sizes 1..8 bytes; pointer values range over a 9-byte window each (every relative placement of the accesses), initial memory defined on the window",
                      before_path=_conf(noaliasing, memtrace), samples=10, maxpaths=20000, index_limit=300, vc_timeout_ms=30000, budget_s=600)


def gen_programs(rng, n, maxlen):
    out = []
    offs = (0, 1, 3, 4, -1)
    sizes = (1, 2, 4, 8)
    for _ in range(n):
        k = rng.randint(2, maxlen)
        prog = []
        nld = 0
        for j in range(k):
            last = (j == k - 1)
            if (rng.random() < 0.5 and not last) or nld >= 3:
                prog.append(("st", rng.choice("pq"), rng.choice(offs), rng.choice((1, 2, 4)), rng.choice(["r0", "r1"] + ["x%d" % t for t in range(nld)])))
            else:
                prog.append(("ld", "x%d" % nld, rng.choice("pq"), rng.choice(offs), rng.choice((1, 2, 4))))
                nld += 1
        if nld == 0:
            prog.append(("ld", "x0", rng.choice("pq"), rng.choice(offs), rng.choice((1, 2, 4))))
        out.append(prog)
    return out


FIXED_PROGRAMS = [
    [("st", "p", 0, 4, "r0"), ("ld", "x0", "q", 0, 4)],
    [("st", "p", 0, 4, "r0"), ("st", "q", 0, 4, "r1"), ("ld", "x0", "p", 0, 4)],
    [("st", "p", 0, 4, "r0"), ("st", "q", 1, 2, "r1"), ("ld", "x0", "p", 0, 4)],
    [("st", "p", 0, 2, "r0"), ("ld", "x0", "q", -1, 4), ("st", "q", 0, 1, "r1"), ("ld", "x1", "p", 0, 2)],
    [("st", "p", 0, 4, "r0"), ("ld", "x0", "p", 0, 4)],
    [("st", "p", 0, 4, "r0"), ("ld", "x0", "p", 1, 2)],
    [("ld", "x0", "p", 0, 4), ("st", "q", 0, 4, "r0"), ("ld", "x1", "p", 0, 4)],
    [("st", "p", 4, 4, "r0"), ("st", "p", 0, 4, "r1"), ("ld", "x0", "q", 3, 2)],
    # a narrow store, then a wider load through the same pointer (the rest comes from an earlier, possibly aliasing store)
    [("st", "p", 0, 4, "r0"), ("st", "q", 0, 1, "r1"), ("ld", "x0", "q", 0, 4)],
    # memory-to-memory moves: the stored value is an earlier load
    [("ld", "x0", "p", 0, 4), ("st", "p", 0, 4, "r0"), ("st", "q", 0, 4, "x0"), ("st", "p", 4, 1, "r1"), ("ld", "x1", "q", 0, 4)],
    [("st", "p", 0, 4, "r0"), ("ld", "x0", "p", 1, 2), ("st", "q", 0, 2, "x0"), ("ld", "x1", "q", 0, 2)],
]


def obligations(prop, tier, seed):
    rng = random.Random("mapper/%s/%s" % (prop, seed))
    obs = []
    if prop == "C09":
        progs = list(FIXED_PROGRAMS) + gen_programs(rng, 5 if tier == "quick" else 400, 4)
        for k, prog in enumerate(progs):
            configs = [(False, True, 1), (False, False, 1), (True, True, 1), (False, True, -1)]
            if tier == "thorough" or k < len(FIXED_PROGRAMS):
                configs += [(True, False, 1), (False, False, -1), (True, True, -1)]
            else:
                configs = rng.sample(configs, 2)
            for (na, mt, e) in configs:
                for ps in ((0, 2), (3, 5), (6, 8)):
                    o = aliasing(prog=prog, noaliasing=na, memtrace=mt, endian=e, pslice=list(ps))
                    o.weight = 4 ** len(prog)
                    o.optional = k >= len(FIXED_PROGRAMS)
                    obs.append(o)
    seen = set()
    out = []
    for o in obs:
        if o.id not in seen:
            seen.add(o.id)
            out.append(o)
    return [o for o in out if prop in o.props]
