"""Layer T: contracts on the expression algebra over TREES (bounded symbolic verification).

A *recipe* describes how a user builds an expression with the public operator API from
registers and constants.  For every recipe (enumerated up to a depth bound), every width of a
list, and ALL register valuations (symbolic), the real code must satisfy:

  route eval : m = mapper(); m[reg] = cst(value) ...; r = m(e)
               r is a constant  ==>  r.size == width(recipe) and r.v == REF(recipe)(valuation)
  route simp : s = e.simplify(**opts);  s.size == width(recipe), every comp in s tiles,
               den(s)(valuation) == REF(recipe)(valuation)   (den: independent walker)
  C13 frame  : every intermediate expression the API returned while building (every operand)
               still has its width and still denotes REF(sub-recipe) afterwards.

REF is specs/refsem.py evaluated on the RECIPE (never on the amoco object).
"""
import random

import amoco.cas.expressions as E
from amoco.cas.mapper import mapper
from amoco.config import conf

from symx.oblig import Obligation, factory
from symx.logic import And, Or, Not, Ite, Eq, Implies, is_sym
from specs import refsem as R
from specs.den import den, check_widths, NoClaim, Malformed

# ---------------------------------------------------------------------------------------
# recipes
# ---------------------------------------------------------------------------------------
ARITH = ("add", "sub", "mul")
LOGIC = ("and", "or", "xor")
SHIFT = ("lsl", "lsr", "asr")
ROT = ("ror", "rol")
CMPU = ("eq", "ne", "ltu", "geu")
CMPS = ("lt", "le", "gt", "ge")
WIDE = ("pow", "div", "mod")
SAMEW = ARITH + LOGIC + SHIFT


def rwidth(rc, w):
    k = rc[0]
    if k == "r":
        return {"a": w, "b": w, "f": 1, "g": 1}[rc[1]]
    if k in ("k", "ki", "s"):
        return rc[2]
    if k == "u":
        return rwidth(rc[2], w)
    if k == "b":
        op = rc[1]
        if op in CMPU or op in CMPS:
            return 1
        if op == "pow":
            return 2 * rwidth(rc[2], w)
        return rwidth(rc[2], w)
    if k == "slc":
        return rc[3] - rc[2]
    if k in ("zx", "sx"):
        return max(rc[2], rwidth(rc[1], w))
    if k == "tst":
        return rwidth(rc[2], w)
    if k == "cat":
        return sum(rwidth(x, w) for x in rc[1])
    raise ValueError(rc)


def rmaxwidth(rc, w):
    m = rwidth(rc, w)
    for x in rc[1:]:
        if isinstance(x, tuple) and x and isinstance(x[0], str):
            m = max(m, rmaxwidth(x, w))
        elif isinstance(x, (list, tuple)):
            for y in x:
                if isinstance(y, tuple):
                    m = max(m, rmaxwidth(y, w))
    return m


class Env(object):
    def __init__(self, w, world, V):
        self.w = w
        self.V = V
        self.regs = {}
        self.vals = {}
        self.world = world
        sfa, sfb = {"U": (False, False), "S": (True, True), "M": (True, False)}[world]
        for name, width, sf in (("a", w, sfa), ("b", w, sfb), ("f", 1, False), ("g", 1, False)):
            r = E.reg(name, width)
            r.sf = sf
            self.regs[name] = r
        self.syms = {}

    def val(self, name):
        if name not in self.vals:
            r = self.regs[name]
            self.vals[name] = self.V.int(name, 0, (1 << r.size) - 1)
        return self.vals[name]

    def symc(self, name, width):
        if name not in self.syms:
            self.syms[name] = self.V.int(name, 0, (1 << width) - 1)
        return self.syms[name]


SYM = {"add": E.OP_ADD, "sub": E.OP_MIN, "mul": E.OP_MUL, "and": E.OP_AND, "or": E.OP_OR, "xor": E.OP_XOR,
       "lsl": E.OP_LSL, "lsr": E.OP_LSR, "asr": E.OP_ASR, "ror": E.OP_ROR, "rol": E.OP_ROL, "eq": E.OP_EQ, "ne": E.OP_NEQ,
       "ltu": E.OP_LTU, "geu": E.OP_GEU, "lt": E.OP_LT, "le": E.OP_LE, "gt": E.OP_GT, "ge": E.OP_GE, "pow": E.OP_MUL2,
       "div": E.OP_DIV, "mod": E.OP_MOD}


def _apply(op, x, y, ctor="api"):
    if ctor == "oper" and isinstance(x, E.exp) and isinstance(y, E.exp):
        # the other public way to build an expression: oper(symbol, l, r), used by the
        # architecture semantics; no short-cut on syntactically equal operands
        return E.oper(SYM[op], x, y)
    if op == "add": return x + y
    if op == "sub": return x - y
    if op == "mul": return x * y
    if op == "and": return x & y
    if op == "or": return x | y
    if op == "xor": return x ^ y
    if op == "lsl": return x << y
    if op == "lsr": return x >> y
    if op == "asr": return x // y
    if op == "ror": return E.ror(x, y)
    if op == "rol": return E.rol(x, y)
    if op == "eq": return x == y
    if op == "ne": return x != y
    if op == "ltu": return E.oper(E.OP_LTU, x, y)
    if op == "geu": return E.oper(E.OP_GEU, x, y)
    if op == "lt": return x < y
    if op == "le": return x <= y
    if op == "gt": return x > y
    if op == "ge": return x >= y
    if op == "pow": return x ** y
    if op == "div": return x / y
    if op == "mod": return x % y
    raise ValueError(op)


def build(rc, env, nodes):
    "build the amoco expression with the public API; nodes collects (recipe, object)"
    k = rc[0]
    if k == "r":
        e = env.regs[rc[1]]
        env.val(rc[1])
    elif k == "k":
        e = E.cst(rc[1], rc[2])
        if env.world == "S":
            e.sf = True
    elif k == "ki":
        return rc[1]    # a raw python int handed to the operator API
    elif k == "s":
        e = E.cst(0, rc[2])
        e.v = env.symc(rc[1], rc[2])
        e.sf = (env.world == "S")
    elif k == "u":
        x = build(rc[2], env, nodes)
        e = (-x) if rc[1] == "neg" else (~x)
    elif k == "b":
        x = build(rc[2], env, nodes)
        y = build(rc[3], env, nodes)
        e = _apply(rc[1], x, y, getattr(env, "ctor", "api"))
    elif k == "slc":
        x = build(rc[1], env, nodes)
        e = x[rc[2]:rc[3]]
    elif k == "zx":
        e = build(rc[1], env, nodes).zeroextend(rc[2])
    elif k == "sx":
        e = build(rc[1], env, nodes).signextend(rc[2])
    elif k == "tst":
        c = build(rc[1], env, nodes)
        x = build(rc[2], env, nodes)
        y = build(rc[3], env, nodes)
        e = E.tst(c, x, y)
    elif k == "cat":
        e = E.composer([build(x, env, nodes) for x in rc[1]])
    else:
        raise ValueError(rc)
    nodes.append((rc, e))
    return e


def ref(rc, env, pre):
    """reference value of the recipe under env's valuation (unsigned, width rwidth(rc));
    preconditions of the property (non-zero divisor, rotation < width) are appended to pre"""
    w = env.w
    k = rc[0]
    if k == "r":
        return env.val(rc[1])
    if k == "k":
        return rc[1] % (1 << rc[2])
    if k == "ki":
        return rc[1] % (1 << rc[2])
    if k == "s":
        return env.symc(rc[1], rc[2])
    if k == "u":
        x = ref(rc[2], env, pre)
        wx = rwidth(rc[2], w)
        return R.neg(x, wx) if rc[1] == "neg" else R.inv(x, wx)
    if k == "b":
        op = rc[1]
        x = ref(rc[2], env, pre)
        y = ref(rc[3], env, pre)
        wx = rwidth(rc[2], w)
        signed = (env.world == "S")
        if op == "add": return R.add(x, y, wx)
        if op == "sub": return R.sub(x, y, wx)
        if op == "mul": return R.mul(x, y, wx)
        if op == "and": return R.band(x, y, wx)
        if op == "or": return R.bor(x, y, wx)
        if op == "xor": return R.bxor(x, y, wx)
        if op == "lsl": return R.lsl(x, y, wx)
        if op == "lsr": return R.lsr(x, y, wx)
        if op == "asr": return R.asr(x, y, wx)
        if op in ("ror", "rol"):
            pre.append(y < wx)
            yy = Ite(y < wx, y, 0)
            return R.ror(x, yy, wx) if op == "ror" else R.rol(x, yy, wx)
        if op == "eq": return R.eq(x, y, wx)
        if op == "ne": return R.ne(x, y, wx)
        if op == "ltu": return R.ltu(x, y, wx)
        if op == "geu": return R.geu(x, y, wx)
        if op == "lt": return R.lt(x, y, wx, signed)
        if op == "le": return R.le(x, y, wx, signed)
        if op == "gt": return R.gt(x, y, wx, signed)
        if op == "ge": return R.ge(x, y, wx, signed)
        if op == "pow": return R.mul2(x, y, wx, signed)
        if op in ("div", "mod"):
            pre.append(y != 0)
            yy = Ite(y != 0, y, 1)
            return R.div(x, yy, wx, signed) if op == "div" else R.rem(x, yy, wx, signed)
        raise ValueError(op)
    if k == "slc":
        x = ref(rc[1], env, pre)
        return R.slc(x, rc[2], rc[3] - rc[2], rwidth(rc[1], w))
    if k == "zx":
        return ref(rc[1], env, pre)
    if k == "sx":
        wx = rwidth(rc[1], w)
        return R.sx(ref(rc[1], env, pre), wx, max(rc[2], wx))
    if k == "tst":
        c = ref(rc[1], env, pre)
        return R.tst(c, ref(rc[2], env, pre), ref(rc[3], env, pre))
    if k == "cat":
        return R.concat([(ref(x, env, pre), rwidth(x, w)) for x in rc[1]])
    raise ValueError(rc)


def show(rc):
    k = rc[0]
    if k == "r": return rc[1]
    if k == "k": return "%#x" % (rc[1] % (1 << rc[2])) if rc[1] >= 0 else "%d" % rc[1]
    if k == "ki": return "int(%d)" % rc[1]
    if k == "s": return "?%s" % rc[1]
    if k == "u": return "%s(%s)" % (rc[1], show(rc[2]))
    if k == "b": return "%s(%s,%s)" % (rc[1], show(rc[2]), show(rc[3]))
    if k == "slc": return "%s[%d:%d]" % (show(rc[1]), rc[2], rc[3])
    if k in ("zx", "sx"): return "%s%d(%s)" % (k, rc[2], show(rc[1]))
    if k == "tst": return "tst(%s,%s,%s)" % tuple(show(x) for x in rc[1:4])
    if k == "cat": return "cat(%s)" % ",".join(show(x) for x in rc[1])
    return str(rc)


def _tup(x):
    "json round trip turns tuples into lists"
    if isinstance(x, list):
        return tuple(_tup(y) for y in x)
    return x


def _subs(rc):
    for x in rc[1:]:
        if isinstance(x, tuple) and x and isinstance(x[0], str):
            yield x
        elif isinstance(x, (list, tuple)):
            for y in x:
                if isinstance(y, tuple) and y and isinstance(y[0], str):
                    yield y


def _any(rc, pred):
    if pred(rc):
        return True
    return any(_any(x, pred) for x in _subs(rc))


def nonlinear(rc):
    return _any(rc, lambda r: r[0] == "b" and r[1] in ("mul", "pow", "div", "mod") and not (_is_const(r[2]) or _is_const(r[3])) or
                (r[0] == "b" and r[1] in ("div", "mod")))


def symsym_bits(rc):
    "logic between two non-constant operands, or a shift by a non-constant amount"
    return _any(rc, lambda r: r[0] == "b" and ((r[1] in LOGIC and not (_is_const(r[2]) or _is_const(r[3]))) or
                                                 (r[1] in SHIFT and not _is_const(r[3]))))


def has_muldiv(rc):
    return _any(rc, lambda r: r[0] == "b" and r[1] in ("mul", "pow", "div", "mod"))


def nl_simple(rc):
    "only registers, constants, arithmetic, comparisons and negation"
    return not _any(rc, lambda r: not (r[0] in ("r", "k", "s") or (r[0] == "u" and r[1] == "neg") or
                                       (r[0] == "b" and r[1] in ARITH + WIDE + CMPU + CMPS)))


def nested_sym_shift(rc):
    return _any(rc, lambda r: r[0] == "b" and r[1] in SHIFT and _any(r[3], lambda q: q[0] == "b" and q[1] in SHIFT and not _is_const(q[3])))


def choose_mode(rc, w):
    """bv: bit-precise, good for logic/shifts/compositions; int: exact unbounded integers,
    needed for multiplication/division above 8 bits. None: not attempted at this width
    (the same recipe shapes are covered at widths <= 8)."""
    if nested_sym_shift(rc) and w > 8:
        return None
    if has_muldiv(rc) and w > 8:
        if symsym_bits(rc):
            return None
        if nonlinear(rc) and not nl_simple(rc):
            return None
        return "int"
    return "bv"


# ---------------------------------------------------------------------------------------
# the contract
# ---------------------------------------------------------------------------------------

def _set_threshold(t):
    def f():
        conf.Cas.complexity = t
    return f


def _value_clauses(post, tag, r, wr, refv, rho, allow_top):
    "postcondition clauses for a result r that must denote refv on wr bits"
    if r is None or not isinstance(r, E.exp):
        post["%s: result is an expression" % tag] = False
        return
    if r._is_top or not r._is_def:
        post["%s: top only with a complexity threshold" % tag] = bool(allow_top)
        post["C12 %s: width of top" % tag] = (r.size == wr)
        return
    post["C12 %s: width" % tag] = (r.size == wr)
    try:
        check_widths(r)
        post["C12 %s: structure (slices in range, compositions tile)" % tag] = True
    except Malformed as ex:
        post["C12 %s: structure: %s" % (tag, ex)] = False
        return
    if r.size != wr:
        return
    side = []
    try:
        d = den(r, rho, None, side)
    except NoClaim:
        return
    except Malformed as ex:
        post["C12 %s: malformed: %s" % (tag, ex)] = False
        return
    if r._is_cst:
        post["C01 %s: valid constant" % tag] = And(d >= 0, d < (1 << wr))
    post["C01 %s: value" % tag] = Implies(And(side), Eq(d, refv))


@factory
def tree(recipe, w, world, route, threshold=0, late=False, ctor="api"):
    """late=True: the expression is built with the complexity threshold off and the threshold
    is switched on just before the route's simplify/eval (sub-expressions then turn into top
    *during* simplification)"""
    rc = _tup(recipe)
    wr = rwidth(rc, w)
    wmax = rmaxwidth(rc, w)

    def body(V):
        env = Env(w, world, V)
        env.ctor = ctor
        nodes = []
        pre = []
        refv = ref(rc, env, pre)
        for name in ("a", "b", "f", "g"):
            pass
        V.assume(And(pre))
        e = build(rc, env, nodes)
        if late:
            conf.Cas.complexity = threshold
        rho = env.vals
        post = {}
        post["C12 built: width"] = (e.size == wr) if isinstance(e, E.exp) else False
        if route == "eval":
            m = mapper()
            for name, val in env.vals.items():
                r0 = env.regs[name]
                c = E.cst(0, r0.size)
                c.v = val
                c.sf = r0.sf
                m[r0] = c
            r = m(e)
            _value_clauses(post, "eval", r, wr, refv, rho, threshold > 0)
        else:
            opts = {"simp": {}, "bitslice": {"bitslice": True}, "widening": {"widening": True}}[route]
            s = e.simplify(**opts)
            _value_clauses(post, route, s, wr, refv, rho, threshold > 0 or route == "widening")
        # C13: every expression handed out by the API while building still means the same
        for k, (src, obj) in enumerate(nodes):
            if not isinstance(obj, E.exp):
                continue
            wsub = rwidth(src, w)
            if obj._is_top or not obj._is_def:
                continue
            post["C13 operand %s keeps width" % show(src)] = (obj.size == wsub)
            try:
                check_widths(obj)
                side = []
                d = den(obj, rho, None, side)
            except NoClaim:
                continue
            except Malformed as ex:
                post["C13 operand %s malformed afterwards: %s" % (show(src), ex)] = False
                # the composition's tiling invariant is also C12's subject (widths of every node)
                post["C12 operand %s no longer tiles its width: %s" % (show(src), ex)] = False
                continue
            if obj.size == wsub:
                post["C13 operand %s keeps value" % show(src)] = Implies(And(side), Eq(d, ref(src, env, [])))
        return post
    W = 2 * wmax + 10
    mode = choose_mode(rc, w)
    oid = "T/%s/w=%d/%s/%s%s%s" % (show(rc), w, world, route, "/thr=%d" % threshold if threshold else "", "late" if late else "") + ("/oper" if ctor == "oper" else "")
    return Obligation(oid, body, ["C01", "C12", "C13"],
                      ["amoco.cas.expressions:oper", "amoco.cas.expressions:op.simplify", "amoco.cas.expressions:uop.simplify",
                       "amoco.cas.expressions:eqn1_helpers", "amoco.cas.expressions:eqn2_helpers", "amoco.cas.expressions:slicer",
                       "amoco.cas.expressions:slc.simplify", "amoco.cas.expressions:comp.__setitem__", "amoco.cas.expressions:comp.cut",
                       "amoco.cas.expressions:comp.restruct", "amoco.cas.expressions:comp.eval", "amoco.cas.expressions:composer",
                       "amoco.cas.expressions:exp.extend", "amoco.cas.expressions:tst.eval", "amoco.cas.expressions:tst.simplify",
                       "amoco.cas.expressions:op.eval", "amoco.cas.expressions:uop.eval", "amoco.cas.expressions:reg.eval",
                       "amoco.cas.expressions:slc.eval", "amoco.cas.mapper:mapper.__call__", "amoco.cas.mapper:mapper.__setitem__",
                       "amoco.cas.mapper:mapper.R"],
                      mode=mode, W=W, level="Bsym", bound="expression trees of depth <= 3 from the recipe enumeration; widths from the listed set",
                      before_path=_set_threshold(0 if late else threshold), samples=6, index_limit=max(64, wmax + 8), maxpaths=3000,
                      vc_timeout_ms=8000, budget_s=40)


# ---------------------------------------------------------------------------------------
# enumeration
# ---------------------------------------------------------------------------------------

def constants(w):
    vals = set([0, 1, 2, 3, w - 1, w, w + 1, (1 << (w - 1)) - 1, 1 << (w - 1), (1 << w) - 2, (1 << w) - 1])
    # a few contiguous masks
    if w >= 4:
        vals.add(((1 << (w // 2)) - 1))
        vals.add(((1 << (w // 2)) - 1) << (w // 4))
        vals.add(((1 << w) - 1) ^ ((1 << (w // 2)) - 1))
        vals.add(0b0110 if w >= 4 else 1)
        vals.add(0b1010)
    return sorted(v % (1 << w) for v in vals if v >= 0)


def small_constants(w):
    s = set([0, 1, w - 1, w, (1 << (w - 1)), (1 << w) - 1])
    if w >= 4:
        s.add(((1 << (w // 2)) - 1) << (w // 4))
    return sorted(v % (1 << w) for v in s)


def leaves(w, consts):
    return [("r", "a"), ("r", "b")] + [("k", c, w) for c in consts]


def binops_for(world):
    ops = list(SAMEW) + list(ROT) + list(CMPU)
    if world in ("U", "S"):
        ops += list(CMPS) + list(WIDE)
    return ops


def _is_const(rc):
    return rc[0] in ("k", "ki", "s")


def _ok_operands(op, x, y, w):
    "well-sizedness and the property's own restrictions on operands"
    if _is_const(x) and _is_const(y):
        return False   # layer K
    if op in ROT:
        # rotations by less than the width: constant amounts only
        return y[0] == "k" and y[1] < rwidth(x, w)
    if op in ("div", "mod") and not (y[0] == "r" or (y[0] == "k" and y[1] % (1 << y[2]) != 0)):
        return False   # divisor: a register (non-zero by precondition) or a non-zero constant
    if op in CMPS or op in WIDE:
        # signedness declared unambiguously: operands are registers, constants or
        # sign-agnostic arithmetic/logic over them
        return _pure(x) and _pure(y)
    return True


def _has_reg(rc):
    if rc[0] == "r":
        return True
    return any(_has_reg(x) for x in rc[1:] if isinstance(x, tuple) and x and isinstance(x[0], str))


def _pure(rc):
    """operand whose signedness is declared unambiguously: a register, a constant leaf, or
    arithmetic (+ - * neg) over them that involves a register.  Bitwise operators are excluded:
    amoco declares them *unsigned* operators (_operator.unsigned), so an ordered comparison of a
    bitwise result with a signed operand mixes signedness.  (constant-only
    sub-trees are folded at build time and the folded constant takes its flag from the sign
    of the python value, not from its operands)"""
    k = rc[0]
    if k in ("r", "k", "s"):
        return rc[0] != "r" or rc[1] in ("a", "b")
    if k == "u":
        return rc[1] == "neg" and _has_reg(rc) and _pure(rc[2])
    if k == "b":
        return _has_reg(rc) and rc[1] in ARITH and _pure(rc[2]) and _pure(rc[3])
    return False


def depth1(w, world):
    out = []
    L = leaves(w, constants(w))
    for op in binops_for(world):
        for x in L:
            for y in L:
                if _ok_operands(op, x, y, w):
                    out.append(("b", op, x, y))
    a, b = ("r", "a"), ("r", "b")
    for u in ("neg", "inv"):
        out.append(("u", u, a))
    cuts = sorted(set(x for x in (0, 1, w // 2, w - 1, w) if 0 <= x <= w))
    for i in cuts:
        for j in cuts:
            if i < j and (i, j) != (0, w):
                out.append(("slc", a, i, j))
    for w2 in (w + 1, 2 * w, w + 8):
        out.append(("zx", a, w2))
        out.append(("sx", a, w2))
    f = ("r", "f")
    out.append(("tst", f, a, b))
    out.append(("tst", ("b", "eq", a, b), a, b))
    out.append(("tst", ("k", 1, 1), a, b))
    out.append(("tst", ("k", 0, 1), a, b))
    out.append(("cat", (a, b)))
    out.append(("cat", (a, ("k", 5 % (1 << w), w))))
    out.append(("cat", (("k", 1, 1), a)))
    out.append(("cat", (f, a, ("r", "g"))))
    return out


def depth2(w, world):
    "outer(inner(a,y1), y2), outer(y2, inner(a,y1)), unary/slice/extension of inner"
    out = []
    a, b = ("r", "a"), ("r", "b")
    S = [("k", c, w) for c in small_constants(w)]
    ops = binops_for(world)
    inner = []
    for op in ops:
        for (x, y) in [(a, b), (b, a), (a, a)] + [(a, k) for k in S] + [(k, a) for k in S]:
            if _ok_operands(op, x, y, w):
                inner.append(("b", op, x, y))
    inner += [("u", "neg", a), ("u", "inv", a)]
    cuts = sorted(set(x for x in (0, 1, w // 2, w - 1, w) if 0 <= x <= w))
    for i in inner:
        wi = rwidth(i, w)
        thirds = [a, b] + S if wi == w else [("r", "f"), ("k", 0, 1), ("k", 1, 1)] if wi == 1 else [("k", 0, wi), ("k", 1, wi), ("zx", a, wi)]
        for op in ops:
            for t in thirds:
                if rwidth(t, w) != wi:
                    continue
                for (x, y) in ((i, t), (t, i)):
                    if _ok_operands(op, x, y, w):
                        out.append(("b", op, x, y))
        out.append(("u", "neg", i))
        out.append(("u", "inv", i))
        for lo in cuts:
            for hi in cuts:
                if lo < hi <= wi and (lo, hi) != (0, wi):
                    out.append(("slc", i, lo, hi))
        out.append(("zx", i, wi + 3))
        out.append(("sx", i, 2 * wi))
        if wi == 1:
            out.append(("tst", i, a, b))
            out.append(("tst", i, ("k", 1, w), ("k", 0, w)))
        else:
            if wi == w:
                out.append(("tst", ("r", "f"), i, a))
            out.append(("cat", (i, a)))
            out.append(("cat", (("k", 1, 1), i)))
    # slices / extensions as operands
    for (lo, hi) in ((0, max(1, w // 2)), (w // 2, w)):
        if lo < hi and (hi - lo) < w:
            s = ("slc", a, lo, hi)
            ws = hi - lo
            for op in SAMEW + CMPU:
                out.append(("b", op, s, ("slc", b, lo, hi)))
                out.append(("b", op, s, ("k", 1, ws)))
            out.append(("zx", s, w))
            out.append(("sx", s, w))
            out.append(("cat", (s, ("slc", a, hi, w)) if hi < w else (s, b)))
    return out


def depth3_random(w, world, n, rng):
    "seeded typed random recipes of depth 3 with interacting operators"
    a, b = ("r", "a"), ("r", "b")
    out = []
    S = small_constants(w)

    def leaf(width):
        r = rng.random()
        if width == w:
            if r < 0.4: return a
            if r < 0.7: return b
            return ("k", rng.choice(S), w)
        if width == 1:
            if r < 0.4: return ("r", "f")
            if r < 0.6: return ("r", "g")
            if r < 0.8: return ("slc", a, 0, 1)
            return ("k", rng.choice((0, 1)), 1)
        if width < w:
            lo = rng.randrange(0, w - width + 1)
            return ("slc", rng.choice((a, b)), lo, lo + width)
        if width == 2 * w:
            return ("cat", (a, b))
        return ("zx", a, width)

    def gen(d, width, pure=False):
        if d == 0:
            return leaf(width)
        r = rng.random()
        if width == 1 and not pure and r < 0.45:
            op = rng.choice(CMPU + (CMPS if world in ("U", "S") else ()))
            ws = rng.choice((w, w, 1))
            x = gen(d - 1, ws, pure=(op in CMPS))
            y = gen(rng.randrange(d), ws, pure=(op in CMPS))
            rc = ("b", op, x, y)
            return rc if _ok_operands(op, x, y, w) else leaf(width)
        if r < 0.55:
            op = rng.choice(ARITH) if pure else rng.choice(SAMEW)
            x = gen(d - 1, width, pure)
            y = gen(rng.randrange(d), width, pure)
            if rng.random() < 0.5:
                x, y = y, x
            if _is_const(x) and _is_const(y):
                return leaf(width)
            return ("b", op, x, y)
        if r < 0.65:
            return ("u", "neg" if pure else rng.choice(("neg", "inv")), gen(d - 1, width, pure))
        if pure:
            return leaf(width)
        if r < 0.75 and width < 2 * w:
            big = rng.choice([x for x in (w, 2 * w) if x > width] or [w])
            if big > width:
                lo = rng.randrange(0, big - width + 1)
                return ("slc", gen(d - 1, big), lo, lo + width)
        if r < 0.82 and width > 1:
            small = rng.choice([x for x in (1, max(1, w // 2), w) if x < width] or [1])
            return (rng.choice(("zx", "sx")), gen(d - 1, small), width)
        if r < 0.9:
            return ("tst", gen(d - 1, 1), gen(rng.randrange(d), width), gen(rng.randrange(d), width))
        if width >= 2:
            k = rng.randrange(1, width)
            return ("cat", (gen(d - 1, k), gen(rng.randrange(d), width - k)))
        return leaf(width)
    tries = 0
    seen = set()
    while len(out) < n and tries < 20 * n:
        tries += 1
        rc = gen(3, rng.choice((w, w, w, 1)))
        if rc in seen or rc[0] in ("r", "k"):
            continue
        try:
            rwidth(rc, w)
        except Exception:
            continue
        seen.add(rc)
        out.append(rc)
    return out


QUICK_W = (1, 2, 8, 13, 32, 64)
THOROUGH_W = (1, 2, 3, 7, 8, 13, 16, 32, 33, 64, 128)


def recipes(tier, seed, prop="C01"):
    rng = random.Random("trees/%s/%s" % (prop, seed))
    widths = THOROUGH_W if tier == "thorough" else QUICK_W
    out = []
    for w in widths:
        for world in ("U", "S", "M"):
            d1 = depth1(w, world)
            d2 = depth2(w, world)
            if tier == "quick":
                n1 = 140 if world != "M" else 50
                n2 = 160 if world != "M" else 40
                d1 = rng.sample(d1, min(len(d1), n1))
                d2 = rng.sample(d2, min(len(d2), n2))
                d3 = depth3_random(w, world, 40 if world != "M" else 10, rng)
            else:
                if world == "M":
                    d1 = rng.sample(d1, min(len(d1), 600))
                    d2 = rng.sample(d2, min(len(d2), 800))
                else:
                    d2 = rng.sample(d2, min(len(d2), 6000))
                d3 = depth3_random(w, world, 1500 if world != "M" else 300, rng)
            for rc in d1 + d2 + d3:
                out.append((rc, w, world))
    return out


# trigger shapes of every rewrite rule: always included, at every width of the tier
def triggers(w):
    a, b = ("r", "a"), ("r", "b")
    K = lambda v: ("k", v % (1 << w), w)
    mask = ((1 << max(1, w // 2)) - 1) << (w // 4)
    T = [
        ("b", "add", ("b", "add", a, K(3)), b),            # (a+c)+r  -> (a+r)+c
        ("b", "sub", ("b", "add", a, K(3)), K(5)),         # constant merging
        ("b", "sub", ("b", "sub", a, K(3)), b),
        ("b", "add", a, ("u", "neg", b)),                  # l + (-r) -> l - r
        ("b", "sub", a, ("b", "sub", b, K(1))),            # l - (a - c)
        ("b", "add", a, ("b", "sub", b, K(1))),
        ("b", "sub", K(7), a),                             # cst - a
        ("b", "sub", K(7), ("b", "sub", a, K(2))),
        ("u", "neg", ("b", "sub", a, b)),
        ("u", "neg", ("b", "add", a, b)),
        ("u", "neg", ("u", "neg", a)),
        ("u", "inv", ("u", "inv", a)),
        ("u", "inv", ("b", "eq", a, b)),
        ("u", "inv", ("b", "ltu", a, b)),
        ("u", "inv", ("b", "geu", a, b)),
        ("b", "and", a, K(mask)),                          # mask -> slice
        ("b", "and", a, K((1 << w) - 1)),
        ("b", "and", a, K(1 << (w - 1))),
        ("b", "or", ("b", "and", a, K(mask)), ("b", "and", b, K(((1 << w) - 1) ^ mask))),
        ("b", "lsl", a, K(0)), ("b", "lsl", a, K(1)), ("b", "lsl", a, K(w - 1)), ("b", "lsl", a, K(w)), ("b", "lsl", a, K(w + 1)),
        ("b", "lsr", a, K(0)), ("b", "lsr", a, K(1)), ("b", "lsr", a, K(w - 1)), ("b", "lsr", a, K(w)), ("b", "lsr", a, K(w + 1)),
        ("b", "asr", a, K(0)), ("b", "asr", a, K(1)), ("b", "asr", a, K(w - 1)), ("b", "asr", a, K(w)), ("b", "asr", a, K((1 << w) - 1)),
        ("b", "lsl", a, b), ("b", "lsr", a, b), ("b", "asr", a, b),
        ("b", "lsl", K(1), b), ("b", "lsr", K(1 << (w - 1)), b), ("b", "asr", K(1 << (w - 1)), b),
        ("b", "xor", a, a), ("b", "sub", a, a), ("b", "and", a, a), ("b", "or", a, a),
        ("b", "eq", a, a), ("b", "ne", a, a), ("b", "ltu", a, a), ("b", "geu", a, a),
        ("b", "eq", ("b", "ltu", a, b), ("k", 1, 1)), ("b", "eq", ("b", "ltu", a, b), ("k", 0, 1)),
        ("b", "ne", ("b", "ltu", a, b), ("k", 1, 1)), ("b", "ne", ("b", "ltu", a, b), ("k", 0, 1)),
        ("b", "ne", ("b", "eq", a, b), ("k", 0, 1)), ("b", "ne", ("b", "xor", ("r", "f"), ("r", "g")), ("k", 0, 1)),
        ("b", "mul", a, K(1)), ("b", "mul", a, K(0)), ("b", "mul", K(1), a),
        ("b", "and", ("cat", (("slc", a, 0, max(1, w // 2)), ("slc", b, max(1, w // 2), w))) if w >= 2 else a, K(mask | 1)),
        ("b", "xor", ("cat", (("slc", a, 0, max(1, w // 2)), ("slc", b, max(1, w // 2), w))) if w >= 2 else a, K(5)),
        ("slc", ("b", "add", a, b), 0, max(1, w // 2)),
        ("slc", ("b", "xor", a, b), w // 2, w),
        ("slc", ("b", "add", a, b), w // 2, w),
        ("slc", ("u", "inv", a), w // 2, w),
        ("slc", ("u", "neg", a), 0, max(1, w // 2)),
        ("slc", ("slc", a, 0, w) if False else ("zx", a, 2 * w), w // 2, w + 1),
        ("slc", ("sx", a, 2 * w), w - 1 if w > 1 else 0, w + 1),
        ("sx", ("slc", a, 0, max(1, w // 2)), w + 3),
        ("tst", ("b", "eq", a, b), a, b), ("tst", ("b", "eq", a, a), a, b), ("tst", ("b", "ne", a, a), a, b),
        ("tst", ("r", "f"), a, a),
        ("b", "add", ("tst", ("r", "f"), a, b), K(1)),
        ("b", "ror", a, K(0)), ("b", "rol", a, K(0)),
    ]
    for op in SAMEW + CMPU + CMPS:
        T.append(("b", op, a, a))
        if op not in SHIFT:
            T.append(("b", op, ("b", "add", a, b), ("b", "add", a, b)))
    ab, ba = ("b", "add", a, b), ("b", "add", b, a)
    for op in ("eq", "ne", "ltu", "geu", "lt", "le", "gt", "ge", "sub", "xor", "and", "or"):
        T.append(("b", op, ab, ba))                    # equal only after operand ordering
        T.append(("b", op, ("b", "xor", a, b), ("b", "xor", b, a)))
    deep = ("b", "add", ("b", "mul", a, b), ("b", "xor", a, ("b", "sub", b, a)))
    T += [("slc", deep, 0, max(1, w // 2)), ("slc", deep, w // 2, w), ("zx", deep, w + 4), ("sx", deep, 2 * w),
          ("tst", ("b", "eq", deep, a), deep, b), ("cat", (deep, a)), ("u", "neg", deep), ("u", "inv", deep),
          ("b", "and", deep, K(mask)), ("b", "lsr", deep, K(1)), ("slc", ("u", "inv", deep), 0, max(1, w // 2))]
    if w > 1:
        T += [("b", "ror", a, K(1)), ("b", "rol", a, K(w - 1)), ("b", "ror", K(mask | 1), ("k", 1, w))]
        T = [t for t in T if not (t[0] == "b" and t[1] in ROT and _is_const(t[2]))]
    out = []
    for t in T:
        try:
            rwidth(t, w)
        except Exception:
            continue
        if t[0] == "slc" and not (0 <= t[2] < t[3] <= rwidth(t[1], w)):
            continue
        out.append(t)
    return out


SKIPPED = []


def obligations(prop, tier, seed):
    obs = []
    seen = set()
    del SKIPPED[:]

    def add(rc, w, world, route, thr=0, optional=True, late=False, ctor="api"):
        key = (rc, w, world, route, thr, late, ctor)
        if key in seen:
            return
        seen.add(key)
        if choose_mode(rc, w) is None:
            SKIPPED.append((show(rc), w))
            return
        o = tree(recipe=rc, w=w, world=world, route=route, threshold=thr, late=late, ctor=ctor)
        o.optional = optional
        obs.append(o)
    widths = THOROUGH_W if tier == "thorough" else QUICK_W
    for w in widths:
        for t in triggers(w):
            for route in ("eval", "simp", "bitslice"):
                add(t, w, "U", route, optional=False)
            add(t, w, "S", "eval", optional=False)
            add(t, w, "U", "eval", 4, optional=False)
            add(t, w, "U", "simp", 4, optional=False)
            add(t, w, "U", "simp", 0, optional=False, ctor="oper")
            add(t, w, "U", "eval", 0, optional=False, ctor="oper")
            add(t, w, "U", "simp", 2, optional=False, late=True)
            add(t, w, "U", "eval", 2, optional=False, late=True)
    rng = random.Random("routes/%s" % seed)
    for (rc, w, world) in recipes(tier, seed, prop):
        add(rc, w, world, "eval")
        add(rc, w, world, "simp")
        k = rng.random()
        if k < 0.25:
            add(rc, w, world, "bitslice")
        elif k < 0.35:
            add(rc, w, world, "widening")
        elif k < 0.5:
            add(rc, w, world, rng.choice(("eval", "simp")), 4)
        elif k < 0.62:
            add(rc, w, world, rng.choice(("eval", "simp", "bitslice")), rng.choice((1, 2, 3)), late=True)
        elif k < 0.8:
            add(rc, w, world, rng.choice(("eval", "simp")), 0, ctor="oper")
    return [o for o in obs if prop in o.props]
