"""regenerates MANIFEST.json from contracts.REGISTRY (run with ./vf py tools/mkmanifest.py)"""
import json, os, sys
ROOT = os.path.dirname(os.path.dirname(os.path.abspath(__file__)))
sys.path.insert(0, ROOT)
from contracts import REGISTRY, NOT_APPLICABLE
props = [json.loads(l) for l in open(os.path.join(ROOT, "properties.jsonl"))]
ids = [p["id"] for p in props]
checks = []
for pid in ids:
    if pid not in REGISTRY:
        continue
    m = REGISTRY[pid]
    checks.append({
        "property_id": pid,
        "quick_cmd": "./vf check %s --tier quick" % pid,
        "thorough_cmd": "./vf check %s --tier thorough" % pid,
        "evidence_file": "evidence/%s.json" % pid,
        "replay_cmd_template": "./vf replay {path}",
        "engine": "symx",
        "level_claimed": {"category": m["category"], "text": m["level_text"], "design_ref": m.get("design_ref", "DESIGN.md section 4")},
        "level_note": m["level_note"],
        "technique": m["technique"],
    })
na = [{"property_id": pid, "reason": NOT_APPLICABLE.get(pid, "check not built yet (see DESIGN.md section 7)")} for pid in ids if pid not in REGISTRY]
man = {
    "version": 1,
    "setup_cmd": "./vf setup",
    "hooks": {"guard": "AMOCO_VERIF", "enable": "no hooks: every instrumentation is sidecar (contracts, wrappers and module-namespace shims installed inside the verifier process only); /repo carries no verification code", "baseline_off_cmd": "cd /repo && /venv/bin/python -m pytest -ra -q -p no:cacheprovider --timeout=900 --continue-on-collection-errors", "source_commits": [], "add_only": True},
    "engines": [{"name": "symx", "path": "symx/", "serves_properties": [c["property_id"] for c in checks],
                 "kind_free_text": "contract verifier built here: executes the real code objects of /repo on symbolic integers (z3 Int / BitVec proxies), enumerates every feasible path, one VC per (contract clause, path), z3 5.1 in-process with cvc5 fallback; the same contracts run natively on plain ints for replay and as run-time contracts"}],
    "checks": checks,
    "not_applicable": na,
    "notes": "exit codes of every check: 0 held (KNOWN-FINDING lines allowed) / 1 violation (replayed natively) / 2 undecided / 3 checker error. Fix commits in /repo and known findings: known_findings.json.",
}
json.dump(man, open(os.path.join(ROOT, "MANIFEST.json"), "w"), indent=1)
print("MANIFEST: %d checks, %d not applicable" % (len(checks), len(na)))
