"""./vf check <ID> [--tier quick|thorough] | replay <file> | selftest | setup | list"""
import argparse
import json
import os
import subprocess
import sys
import time

ROOT = os.path.dirname(os.path.dirname(os.path.abspath(__file__)))


def _registry():
    from contracts import REGISTRY
    return REGISTRY


def write_evidence(prop, tier, seed, code, summary, meta):
    from . import shims
    obs, results = summary["obs"], summary["results"]
    P = [r for o, r in zip(obs, results) if r and o.level == "P" and o.expect == "proved" and r.get("verdict") != "noclaim"]
    B = [r for o, r in zip(obs, results) if r and o.level == "Bsym" and o.expect == "proved" and r.get("verdict") != "noclaim"]
    RT = [r for o, r in zip(obs, results) if r and o.level == "Brt"]
    def agg(rs, key):
        return sum((r.get(key) or 0) for r in rs)
    backends = {}
    for r in P + B:
        for k, v in (r.get("backend") or {}).items():
            backends[k] = backends.get(k, 0) + v
    fuc = sorted(set(f for r in P + B + RT for f in (r.get("fuc") or [])))
    samples = []
    for r in (P + B)[:400]:
        if r.get("sample_path") and len(samples) < 6:
            samples.append({"obligation": r["id"], "verdict": r["verdict"], "paths": r["paths"],
                            "vcs": r["vcs"], "example_path": r["sample_path"]})
    for r in RT:
        for s in (r.get("samples") or [])[:3]:
            if len(samples) < 12:
                samples.append({"obligation": r["id"], "case": s})
    level = meta["category"]
    proved_P = [r for r in P if r["verdict"] == "proved"]
    proved_B = [r for r in B if r["verdict"] == "proved"]
    cov = {
        "checker_cmd": "./vf check %s --tier %s" % (prop, tier),
        "functions_under_contract": fuc,
        "proof_level": {"obligations": len(P), "discharged": len(proved_P), "paths": agg(P, "paths"),
                        "verification_conditions": agg(P, "vcs"), "vcs_discharged": agg(P, "discharged")},
        "bounded_symbolic": {"obligations": len(B), "discharged": len(proved_B), "paths": agg(B, "paths"),
                             "verification_conditions": agg(B, "vcs"), "vcs_discharged": agg(B, "discharged"),
                             "bounds": sorted(set(r["bound"] for r in B if r.get("bound")))[:40],
                             "note": "bounded: complete inside the stated bound, never counted as proved"},
        "runtime_contracts": {"obligations": len(RT), "evaluations": agg(RT, "evaluations"),
                              "distinct_nontrivial": agg(RT, "distinct_nontrivial"),
                              "rules": sorted(set(r.get("rule") for r in RT if r.get("rule")))[:20],
                              "note": "bounded (concrete inputs): never counted as proved"},
        "concrete_crosscheck_evaluations": agg(P + B, "concrete_evals"),
        "vacuity_canaries_refuted": summary["canaries"],
        "back_ends": backends,
        "solver_seconds": round(agg(P + B, "solver_s"), 2),
        "known_findings_reported": sorted(set(k[0]["what"] for k in summary["known_hits"])),
        "undecided": [r["id"] for r in summary["undecided"]][:50],
        "not_decided_optional": {"count": len(summary["not_attempted"]),
                                 "note": "seeded-random obligations neither solver decided inside its budget; the concrete sampler (>= 400 evaluations each) found no counterexample; not counted as discharged",
                                 "examples": [(r["id"], r.get("reason")) for r in summary["not_attempted"]][:20]},
        "trusted_base": meta.get("trusted_base", []) + shims.describe(),
        "samples": samples,
        "explanation": meta.get("explanation", ""),
        "exit_code": code,
    }
    # keys required by the level
    known_ids = set(k[1]["id"] for k in summary["known_hits"])
    cov["known_finding_obligations"] = {"count": len(known_ids), "note": "obligations refuted on the recorded known findings: reported by KNOWN-FINDING lines, excluded from obligations/discharged"}
    if level == "proof":
        cov["obligations"] = len([r for r in P if r["id"] not in known_ids])
        cov["discharged"] = len(proved_P)
    else:
        cov["obligations"] = len(P) + len(B)
        cov["discharged"] = len(proved_P) + len(proved_B)
    ev = agg(RT, "evaluations") + agg(P + B, "paths")
    cov["evaluations"] = max(ev, 0)
    dn = agg(RT, "distinct_nontrivial")
    cov["distinct_nontrivial"] = dn + agg(P + B, "paths")
    cov["rule"] = meta.get("rule", "symbolic obligations: one case per explored path of the real function (distinct by construction: path conditions are pairwise disjoint); run-time contracts: see runtime_contracts.rules")
    out = {"property_id": prop, "tier": tier, "seed": seed, "level": level, "coverage": cov,
           "assumptions": meta.get("assumptions", []), "wall_s": round(summary["wall_s"], 2),
           "violations": len(summary["violations"])}
    os.makedirs(os.path.join(ROOT, "evidence"), exist_ok=True)
    with open(os.path.join(ROOT, "evidence", "%s.json" % prop), "w") as f:
        json.dump(out, f, indent=1, default=str)


def cmd_check(a):
    from . import runner
    reg = _registry()
    if a.prop not in reg:
        print("CHECKER-ERROR unknown or unclaimed property %s" % a.prop)
        return 3
    meta = reg[a.prop]
    tier = a.tier or os.environ.get("VERIF_TIER") or "quick"
    seed = int(os.environ.get("VERIF_SEED", "0") or 0)
    code, summary = runner.check_property(a.prop, tier, seed, meta["modules"], jobs=a.jobs, only=a.only)
    if summary is None:
        return code
    if not a.only:
        write_evidence(a.prop, tier, seed, code, summary, meta)
    res = [r for r in summary["results"] if r]
    nP = sum(1 for o in summary["obs"] if o.level == "P")
    print("[%s] tier=%s seed=%d obligations=%d (proof-level %d) proved=%d paths=%d vcs=%d wall=%.1fs exit=%d" % (
        a.prop, tier, seed, len(res), nP, sum(1 for r in res if r.get("verdict") == "proved"),
        sum(r.get("paths", 0) for r in res), sum(r.get("vcs", 0) for r in res), summary["wall_s"], code))
    if a.verbose:
        for r in sorted(res, key=lambda r: -r.get("wall_s", 0))[:int(os.environ.get("VERIF_TOPN", "15"))]:
            print("   %-70s %-10s paths=%-6d %.1fs" % (r["id"][:70], r.get("verdict"), r.get("paths", 0), r.get("wall_s", 0)))
    return code


def cmd_replay(a):
    env = dict(os.environ)
    p = subprocess.run([sys.executable, "-m", "symx.replay", a.file], cwd=ROOT, env=env)
    return p.returncode


def cmd_selftest(a):
    from . import selftest
    return selftest.main()


def cmd_setup(a):
    import z3
    import amoco
    print("overlay venv ok: z3 %s, amoco from %s" % (z3.get_version_string(), os.path.dirname(amoco.__file__)))
    return 0


def cmd_list(a):
    for k, v in sorted(_registry().items()):
        print(k, v["category"], " ".join(v["modules"]))
    return 0


def main():
    ap = argparse.ArgumentParser(prog="vf")
    sub = ap.add_subparsers(dest="cmd")
    c = sub.add_parser("check")
    c.add_argument("prop")
    c.add_argument("--tier", choices=["quick", "thorough"])
    c.add_argument("--jobs", type=int)
    c.add_argument("--only")
    c.add_argument("-v", "--verbose", action="store_true")
    r = sub.add_parser("replay")
    r.add_argument("file")
    sub.add_parser("selftest")
    sub.add_parser("setup")
    sub.add_parser("list")
    py = sub.add_parser("py")
    py.add_argument("script")
    py.add_argument("args", nargs="*")
    a = ap.parse_args()
    if a.cmd == "py":
        import runpy
        sys.argv = [a.script] + a.args
        runpy.run_path(a.script, run_name="__main__")
        return 0
    fn = {"check": cmd_check, "replay": cmd_replay, "selftest": cmd_selftest, "setup": cmd_setup, "list": cmd_list}.get(a.cmd)
    if fn is None:
        ap.print_help()
        return 3
    try:
        return fn(a)
    except SystemExit:
        raise
    except BaseException as e:
        import traceback
        traceback.print_exc()
        print("CHECKER-ERROR %s: %s" % (type(e).__name__, e))
        return 3


if __name__ == "__main__":
    sys.exit(main())
